"""C15 - automatic reconnection restores service after loss and stops on request."""
import random

from .. import rfc6455 as R
from ..appdrv import run_app
from ..harness import S, Result, InvalidScenario
from ..runner import derive_seed

ID = "C15"
LEVEL = "exploration"
RULE = ("scenario = run_forever(reconnect=r), r in {1/4, 1, 5, 30} s (argument or setReconnect), against a sequence of <=6 "
        "connection outcomes {refused, handshake rejected, established then lost by end of stream / reset / ping timeout, "
        "established then server close frame (optionally followed at once by a reset)} with 0..3 messages on every established connection; optional close() from "
        "the k-th on_message callback, from a second thread at a virtual time (built-in loop) or from a timer of the external "
        "dispatcher (including inside the back-off wait); "
        "optionally an application thread sitting in send() across the loss (server window closed); on_reconnect given or not; built-in loop and the SimRel external-dispatcher stub; seeded schedules.  Oracle from "
        "the network log and the callback trace: after an abnormal loss observed at L the next connection attempt starts "
        "at A with r <= A-L <= r+5 s (after a ping timeout: within the liveness bound); attempts repeat until one "
        "succeeds; success fires on_reconnect (else on_open) and that connection's messages are delivered; no on_close in "
        "between; at every new attempt all earlier sockets are closed and all earlier ping threads have exited; after a "
        "server close frame or the application's close() no further attempt is logged and the run ends.  Enumerated "
        "completely: every outcome sequence of length <=3 over 5 outcome kinds x {builtin, rel}; close() at 40 instants "
        "across a refused-refused-established history.  non-trivial = at least one loss followed by an attempt; distinct "
        "= (outcome sequence, r, dispatcher, on_reconnect?, closer kind and phase)")
ASSUMPTIONS = ["an exception escaping a callback into the external dispatcher ends dispatch() (the stub's choice; rel's own behaviour is not modelled)",
               "on_error is not judged here (C14)", "slack of 5 s after the interval covers the library's bounded thread join"]
STUB = ["external dispatcher `rel` (sim/simrel.py follows rel's documented contract)"]
KINDS = ("refused", "rejected", "eof", "reset", "ping_timeout", "server_close")
R_GRID = (S // 4, S, 5 * S, 30 * S)
WALL_CAP = {"quick": 600, "thorough": 3300}


def plan(tier, seed):
    items = [{"kind": "seqs", "disp": d, "exhaustive": "every outcome sequence of length <=3 (ending in server close) x {builtin, rel}"}
             for d in ("builtin", "rel")]
    items.append({"kind": "closer_sweep", "exhaustive": "close() from a second thread at 40 instants across a refused-refused-established-lost-established history"})
    n = 4000 if tier == "quick" else 320000
    per = 125 if tier == "quick" else 1000
    for s in range(0, n, per):
        items.append({"kind": "rand", "start": s, "count": per})
    return items


def _out(kind, msgs=1, at=S):
    return {"kind": kind, "msgs": msgs, "at": at}


def expand(item, seed):
    k = item["kind"]
    if k == "seqs":
        kinds = [x for x in KINDS if x != "server_close"]
        seqs = [[]] + [[a] for a in kinds] + [[a, b] for a in kinds for b in kinds]
        for cut in ("mid_frame", "after_first_fragment", "mid_header"):
            for kind_ in ("eof", "reset"):
                yield {"outcomes": [dict(_out(kind_, 1), cut=cut), _out("server_close", 3)], "reconnect": S, "via": "arg", "on_reconnect": True,
                       "dispatcher": item["disp"], "closer": None, "policy": {"kind": "coop", "p_call": 0.0}, "seed": 1}
        for sq in seqs:
            for onrec in (True, False):
                sc = {"outcomes": [_out(x) for x in sq] + [_out("server_close", 2)], "reconnect": S, "via": "arg", "on_reconnect": onrec,
                      "dispatcher": item["disp"], "closer": None, "policy": {"kind": "coop", "p_call": 0.0}, "seed": 1}
                if "ping_timeout" in sq:
                    sc["ping"] = {"interval": 2 * S, "timeout": S}
                yield sc
                if sq and sq[0] == "ping_timeout" and onrec and item["disp"] == "builtin":
                    # an application thread sits in send() from before the first ping until well after the replacement
                    # connection is up (the server's window stays closed): the old ping thread is stuck behind it
                    yield dict(sc, sender={"at": S, "block": 14 * S, "len": 50})
                if "ping_timeout" in sq and onrec:
                    yield dict(sc, reconnect=5 * S, outcomes=[dict(_out(x), then_eof=True) if x == "ping_timeout" else _out(x) for x in sq] + [_out("server_close", 2)])
                    yield dict(sc, reconnect=5 * S, outcomes=[dict(_out(x), then_eof="reset") if x == "ping_timeout" else _out(x) for x in sq] + [_out("server_close", 2)])
                if onrec and len(sq) <= 1:
                    yield dict(sc, outcomes=[_out(x) for x in sq] + [dict(_out("server_close", 2), then_reset=True)])
    elif k == "closer_sweep":
        base = {"outcomes": [_out("refused"), _out("refused"), _out("eof", 1, S), _out("server_close", 1, 40 * S)], "reconnect": 2 * S,
                "via": "arg", "on_reconnect": True, "policy": {"kind": "coop", "p_call": 0.0}, "seed": 1}
        for disp in ("builtin", "rel"):
            for i in range(40):
                yield dict(base, dispatcher=disp, closer={"kind": "time" if disp == "builtin" else "rel_timer", "t": i * (S // 4) + 3})
    else:
        for i in range(item["start"], item["start"] + item["count"]):
            yield gen(random.Random(derive_seed(seed, ID, i)))


def gen(rng):
    disp = rng.choice(("builtin", "builtin", "rel"))
    n = rng.randrange(0, 6)
    kinds = [x for x in KINDS if x != "server_close"]
    outs = [_out(rng.choice(kinds), rng.randrange(0, 4), rng.choice((S // 4, S, 3 * S))) for _ in range(n)]
    for o in outs:
        if o["kind"] in ("eof", "reset") and rng.random() < 0.4:
            o["cut"] = rng.choice(("mid_frame", "after_first_fragment", "mid_header"))
        if o["kind"] == "ping_timeout" and rng.random() < 0.4:
            o["then_eof"] = rng.choice((True, "reset"))
    outs.append(_out("server_close", rng.randrange(0, 4), rng.choice((S, 4 * S))))
    if rng.random() < 0.2:
        outs[-1]["then_reset"] = True
    sc = {"outcomes": outs, "reconnect": rng.choice(R_GRID), "via": rng.choice(("arg", "arg", "setReconnect")),
          "on_reconnect": rng.random() < 0.6, "dispatcher": disp, "closer": None, "seed": rng.randrange(1 << 30)}
    if any(o["kind"] == "ping_timeout" for o in outs) or rng.random() < 0.2:
        sc["ping"] = rng.choice(({"interval": 2 * S, "timeout": S}, {"interval": 5 * S, "timeout": 2 * S}))
        if any(o.get("then_eof") for o in outs):
            sc["reconnect"] = rng.choice((5 * S, 30 * S))
    r = rng.random()
    if r < 0.25:
        total = sum(o["at"] + sc["reconnect"] for o in outs)
        sc["closer"] = {"kind": "time" if disp != "rel" else "rel_timer", "t": rng.randrange(1, max(2, total))}
    elif r < 0.4:
        sc["closer"] = {"kind": "callback", "n": rng.randrange(1, 5)}
    sc["policy"] = rng.choice(({"kind": "coop", "p_call": 0.0}, {"kind": "coop", "p_call": 0.3},
                               {"kind": "prob", "p_line": 1 / 64, "p_call": 0.3}))

    if rng.random() < 0.15:
        sc["tls"] = True
    elif disp == "builtin" and sc.get("ping") and not sc.get("closer") and outs[0]["kind"] in ("ping_timeout", "eof", "reset") and rng.random() < 0.3:
        sc["sender"] = {"at": rng.choice((S // 2, S)), "block": rng.choice((6, 10, 14, 20)) * S, "len": 50}
    return sc


def run(sc, choices=None):
    res = Result()
    try:
        outs = list(sc["outcomes"])
        if not 1 <= len(outs) <= 8 or outs[-1]["kind"] != "server_close":
            raise InvalidScenario("outcomes must end with a server close")
        rr = int(sc["reconnect"])
        if rr < S // 8:
            raise InvalidScenario("reconnect interval too small")
        disp = sc.get("dispatcher", "builtin")
        if disp not in ("builtin", "rel"):
            raise InvalidScenario("dispatcher")
        ping = sc.get("ping")
        if ping and (int(ping["interval"]) < S // 2 or int(ping["timeout"]) < S // 4):
            raise InvalidScenario("ping settings below the generator's range")
        closer = sc.get("closer")
        if closer and closer.get("kind") == "time" and disp == "rel":
            raise InvalidScenario("close() from a second thread under an external dispatcher is outside the dispatcher's contract")
        if closer and closer.get("kind") == "rel_timer" and disp != "rel":
            raise InvalidScenario("a dispatcher timer needs the external dispatcher")
        conns = []
        msg_id = 0
        expected_msgs = []  # per established connection
        for o in outs:
            kind = o["kind"]
            if kind not in KINDS:
                raise InvalidScenario("kind")
            if kind == "ping_timeout" and not ping:
                raise InvalidScenario("ping timeout needs ping settings")
            if kind == "refused":
                conns.append({"outcome": "refused"})
                continue
            if kind == "rejected":
                conns.append({"reject": 403})
                continue
            at = max(S // 16, int(o.get("at", S)))
            script = []
            msgs = []
            nm = int(o.get("msgs", 0))
            if not 0 <= nm <= 5:
                raise InvalidScenario("msgs")
            for j in range(nm):
                msg_id += 1
                text = f"m{msg_id}"
                msgs.append(text)
                script.append({"t": (j + 1) * at // (nm + 1), "hex": R.encode_frame(1, 1, text.encode()).hex()})
            spec = {"script": script, "on_ping": {"mode": "pong"}, "on_close": {"mode": "reply"}}
            if kind in ("eof", "reset"):
                cut = o.get("cut")
                if cut == "mid_frame":
                    # the connection is lost after the header and part of the payload of a frame have arrived
                    script.append({"t": at, "hex": R.encode_frame(1, 1, b"this frame is cut off")[:9].hex()})
                elif cut == "after_first_fragment":
                    script.append({"t": at, "hex": R.encode_frame(0, 1, b"first fragment only").hex()})
                elif cut == "mid_header":
                    script.append({"t": at, "hex": "81"})
                elif cut is not None:
                    raise InvalidScenario("cut")
                script.append({"t": at, "end": kind})
            elif kind == "ping_timeout":
                spec["on_ping"] = {"mode": "never"}
                if o.get("then_eof"):
                    # the hung peer's connection is torn down (end of stream) while the client, having given it up, is
                    # waiting out the reconnect interval: one loss, reported a second time
                    if rr <= 2 * int(ping["timeout"]):
                        raise InvalidScenario("then_eof needs a reconnect interval above two ping timeouts")
                    # (then_eof == "reset": it is torn down by a reset - shutdown(2) on that socket then reports ENOTCONN)
                    script.append({"t": 2 * int(ping["interval"]) + 2 * int(ping["timeout"]) + rr // 2, "end": "reset" if o["then_eof"] == "reset" else "eof"})
            else:
                it_ = {"t": at, "hex": R.encode_frame(1, 8, b"\x03\xe8bye").hex()}
                if o.get("then_reset"):
                    # the server resets the connection right behind its close frame: the client's reply cannot be written
                    it_["client_send_fail"] = "ECONNRESET"
                    it_["end"] = "reset"
                script.append(it_)
            conns.append(spec)
            expected_msgs.append((kind, msgs))
    except (KeyError, TypeError, ValueError) as e:
        raise InvalidScenario(str(e))
    cbs = {n: {"do": "ok"} for n in ("on_open", "on_message", "on_error", "on_close")}
    if sc.get("on_reconnect"):
        cbs["on_reconnect"] = {"do": "ok"}
    app_closer = None
    if closer:
        if closer.get("kind") in ("time", "rel_timer"):
            app_closer = {"kind": closer["kind"], "t": int(closer["t"])}
        elif closer.get("kind") == "callback":
            cbs["on_message"] = {"do": "close", "nth": int(closer["n"])}
        else:
            raise InvalidScenario("closer")
    runopt = {"dispatcher": disp, "tls": bool(sc.get("tls"))}
    if sc.get("via") == "setReconnect":
        runopt["set_reconnect"] = rr
    else:
        runopt["reconnect"] = rr
    if ping:
        runopt["ping_interval"] = int(ping["interval"])
        runopt["ping_timeout"] = int(ping["timeout"])
    horizon = sum(int(o.get("at", S)) for o in outs) + (len(outs) + 2) * (rr + 6 * S) + 60 * S
    if ping:
        horizon += len(outs) * (3 * int(ping["interval"]) + 3 * int(ping["timeout"]))
    sender = sc.get("sender")
    if sender is not None and (disp != "builtin" or sc.get("tls") or closer):
        raise InvalidScenario("the blocked application thread is combined with the built-in loop, plain transport, no close()")
    asc = {"conns": conns, "callbacks": cbs, "run": runopt, "closer": app_closer, "policy": sc.get("policy"), "sender": sender,
           "seed": sc.get("seed", 1), "time_cap_s": int(horizon / S) + 100, "step_cap": 1_500_000,
           # (with a blocked application thread the old ping thread can only leave once that send() has returned)
           "linger": max(rr + 8 * S, (int(sender.get("at", 0)) + int(sender.get("block", 0)) + 4 * S) if sender else 0),
           "max_attempts": len(outs) + 12}
    out = run_app(asc, choices)
    w = out["world"]
    res.absorb(w, exclude_kinds=("send", "recv", "deliver", "recv_call") if sc.get("tls") else ())
    run_ = out["runs"][0]
    log = w.k.log
    if sc.get("tls"):
        res.probes["tls_transport"] = 1
    ctxd = disp
    # ---------------------------------------------------------------- facts from the log
    connects = [e for e in log if e[3] == "connect"]  # (seq, t, tid, 'connect', fd, addr, port, outcome)
    closes = {e[4]: e for e in log if e[3] == "close"}
    ends = {e[4]: e for e in log if e[3] in ("deliver_eof", "deliver_reset")}
    close_call = None
    for e in log:
        if e[3] == "closer_fires":
            close_call = e
            break
    if close_call is None and closer and closer.get("kind") == "callback":
        hits = [t for t in run_.trace if t[2] == "on_message"]
        n = int(closer["n"])
        if len(hits) >= n:
            close_call = (hits[n - 1][0], hits[n - 1][1])
    names = [t[2] for t in run_.trace]
    closer_phase = None
    if close_call is not None:
        # phase of the run when close() was called
        cseq = close_call[0]
        last_conn = [e for e in connects if e[0] < cseq]
        if not last_conn:
            closer_phase = "before_first_attempt"
        else:
            lc = last_conn[-1]
            fd = lc[4]
            lost = lc[7] != "accept" or (fd in closes and closes[fd][0] < cseq) or (fd in ends and ends[fd][0] < cseq)
            closer_phase = "during_backoff" if lost else "while_connected"
    if run_.aborted:
        res.violate("run_does_not_end", f"{ctxd}/{closer_phase or 'no_close'}", f"aborted ({run_.aborted}) at t={w.k.now / S}; attempts {len(connects)}; callbacks {names[-6:]}")
        return _fin(res, sc, outs, closer_phase)
    if run_.exc is not None:
        res.violate("run_forever_raised", f"{ctxd}/{closer_phase or 'no_close'}", f"{type(run_.exc).__name__}: {run_.exc}")
        return _fin(res, sc, outs, closer_phase)
    # ---------------------------------------------------------------- stop on request
    if close_call is not None:
        after = [e for e in connects if e[0] > close_call[0]]
        if after:
            res.violate("attempt_after_close", f"{ctxd}/{closer_phase}",
                        f"close() called at t={close_call[1] / S}; connection attempt at t={after[0][1] / S}")
            return _fin(res, sc, outs, closer_phase)
    # ---------------------------------------------------------------- walk the attempts
    end_seq = None  # after this point no attempt may be logged
    end_why = None
    for i, ce in enumerate(connects):
        if i >= len(outs):
            break
        o = outs[i]
        kind = o["kind"]
        fd = ce[4]
        # (one transport at a time) every earlier socket is closed when a new attempt starts
        earlier_open = [c[4] for c in connects[:i] if c[7] == "accept" and (c[4] not in closes or closes[c[4]][0] > ce[0])]
        if earlier_open:
            res.violate("two_live_transports", ctxd, f"attempt #{i} started while sockets {earlier_open} were still open")
            return _fin(res, sc, outs, closer_phase)
        if close_call is not None and ce[0] > close_call[0]:
            res.violate("attempt_after_close", f"{ctxd}/{closer_phase}", f"close() called at t={close_call[1] / S}; connection attempt #{i} at t={ce[1] / S}")
            return _fin(res, sc, outs, closer_phase)
        nxt = connects[i + 1] if i + 1 < len(connects) else None
        if kind == "server_close":
            sc_frames = [e for e in log if e[3] == "deliver" and e[4] == fd]
            end_seq, end_why = ce[0], "server close frame"
            if nxt is not None and (close_call is None or nxt[0] < close_call[0]):
                res.violate("reconnect_after_server_close", ctxd, f"connection #{i} was ended by a server close frame; another attempt at t={nxt[1] / S}")
                return _fin(res, sc, outs, closer_phase)
            break
        # abnormal loss: when was it observed?
        if kind == "refused":
            L = ce[1]
        elif kind == "rejected":
            L = closes[fd][1] if fd in closes else None
        elif kind in ("eof", "reset"):
            L = ends[fd][1] if fd in ends else None
        else:
            L = None
        if close_call is not None and (nxt is None or nxt[0] > close_call[0]):
            break  # the application closed before the next attempt was due: judged by attempt_after_close
        if nxt is None:
            res.violate("no_reconnect_after_loss", f"{ctxd}/{kind}", f"connection attempt #{i} ({kind}) was not followed by another attempt; run ended at t={run_.t_end / S}")
            return _fin(res, sc, outs, closer_phase)
        if L is not None:
            d = nxt[1] - L
            if d < rr or d > rr + 5 * S:
                res.violate("reconnect_interval_not_respected", f"{ctxd}/{kind}", f"loss observed at t={L / S}, next attempt at t={nxt[1] / S} (delay {d / S}s, interval {rr / S}s)")
                return _fin(res, sc, outs, closer_phase)
    if len(connects) > len(outs):
        res.violate("reconnect_after_server_close", ctxd, f"{len(connects)} attempts for {len(outs)} scripted outcomes")
        return _fin(res, sc, outs, closer_phase)
    # ping threads: never two alive
    spawns = [e for e in log if e[3] == "spawn" and e[5] == "SimThread"]
    exits = {e[4]: e for e in log if e[3] == "exit"}
    for a, b in zip(spawns, spawns[1:]):
        if a[4] not in exits or exits[a[4]][0] > b[0]:
            if sender is not None and a[4] in exits:
                # the old ping thread was stuck behind the application's blocked send() (it could not even notice that it
                # had been told to stop): it must be harmless - gone once unstuck, no ping of its own on a later connection
                continue
            res.violate("two_live_ping_threads", ctxd, f"ping thread {b[4]} started while {a[4]} was still alive"
                        + (" and it never exited" if sender is not None else ""))
            return _fin(res, sc, outs, closer_phase)
    if ping:
        # pings on one connection are one interval apart: two ping threads feeding one connection show as a faster cadence
        for pi, pr in enumerate(p_ for p_ in out["peers"] if hasattr(p_, "frames")):
            tms = [tm for f, _, tm in pr.frames if f.opcode == 9]
            for x, y in zip(tms, tms[1:]):
                if y - x < int(ping["interval"]) - S // 8:
                    res.violate("two_live_ping_threads", ctxd, f"connection #{pi}: pings {(y - x) / S}s apart, interval {int(ping['interval']) / S}s "
                                f"(a ping thread of an earlier connection is still pinging)")
                    return _fin(res, sc, outs, closer_phase)
    # ---------------------------------------------------------------- callbacks
    exp = []
    ei = 0
    for ai, o in enumerate(outs):
        if o["kind"] in ("refused", "rejected"):
            continue
        kind, msgs = expected_msgs[ei]
        ei += 1
        # the first attempt's success is an 'open'; success after any loss (incl. failed attempts) a 'reconnect'
        exp.append("on_open" if ai == 0 or not sc.get("on_reconnect") else "on_reconnect")
        exp.extend(["on_message:" + m for m in msgs])
    act = []
    for t in run_.trace:
        if t[2] in ("on_open", "on_reconnect"):
            act.append(t[2])
        elif t[2] == "on_message":
            act.append("on_message:" + (t[3][0][1] if t[3] and t[3][0][0] == "s" else "?"))
    cctx = f"{ctxd}/{closer_phase or 'no_close'}"
    if close_call is None:
        if act != exp:
            i = next((i for i, (a, b) in enumerate(zip(act, exp)) if a != b), min(len(act), len(exp)))
            res.violate("service_not_restored", cctx, f"callbacks {act[max(0, i - 2):i + 3]} vs expected {exp[max(0, i - 2):i + 3]} (position {i})")
            return _fin(res, sc, outs, closer_phase)
    else:
        if act != exp[:len(act)]:
            i = next((i for i, (a, b) in enumerate(zip(act, exp)) if a != b), min(len(act), len(exp)))
            res.violate("service_not_restored", cctx, f"callbacks {act[max(0, i - 2):i + 3]} are not a prefix of {exp[max(0, i - 2):i + 3]} (position {i})")
            return _fin(res, sc, outs, closer_phase)
    ncl = names.count("on_close")
    if ncl > 1 or (ncl == 1 and names[-1] != "on_close"):
        res.violate("on_close_between_connections", cctx, f"on_close called {ncl} times; trace tail {names[-6:]}")
        return _fin(res, sc, outs, closer_phase)
    # ---------------------------------------------------------------- the run ends after the ending event
    late = [e for e in connects if e[1] > run_.t_end]
    if late:
        res.violate("attempt_after_run_ended", cctx, f"connection attempt at t={late[0][1] / S} after run_forever/dispatch returned at t={run_.t_end / S}")
    return _fin(res, sc, outs, closer_phase)


def _fin(res, sc, outs, closer_phase):
    res.sig = repr((tuple((o["kind"], o.get("cut"), bool(o.get("then_reset")), bool(o.get("then_eof"))) for o in outs), sc["reconnect"], sc.get("dispatcher"), bool(sc.get("on_reconnect")),
                    (sc.get("closer") or {}).get("kind"), closer_phase, res.sched if res.switches else ""))
    res.nontrivial = len(outs) > 1
    for o in outs:
        res.probes["outcome_" + o["kind"]] = res.probes.get("outcome_" + o["kind"], 0) + 1
        if o.get("cut"):
            res.probes["loss_" + o["cut"]] = 1
    if closer_phase:
        res.probes["close_" + closer_phase] = 1
    if sc.get("dispatcher") == "rel":
        res.probes["external_dispatcher"] = 1
    return res


def sample_view(sc, r):
    return {k: sc.get(k) for k in ("outcomes", "reconnect", "via", "on_reconnect", "dispatcher", "closer", "ping", "policy", "sender")}


# round 7 summary for the evidence file
RULE = RULE + '  Round 7: the hung peer of a ping timeout may be torn down by a reset (not only by end of stream) during the reconnect wait: shutdown(2) on that socket reports ENOTCONN.'
