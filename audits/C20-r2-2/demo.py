"""C20 counterexample 2: a response that names ONE Domain (shop.example) and also
carries, in a separate Set-Cookie header, a cookie whose NAME is "domain"
(Set-Cookie: domain=evil.org  -- name "domain", value "evil.org", no attributes).

read_headers() glues the Set-Cookie lines together with "; " and SimpleCookie then
reads the second cookie's name as a Domain ATTRIBUTE of the first cookie.  Result:
the session cookie is filed under .evil.org, replayed to evil.org and no longer sent
to shop.example.

Exits 1 (and prints what went wrong) against the unmodified library, 0 if cookies are
only replayed inside the domain the response named.
"""
import base64
import hashlib
import sys

sys.path.insert(0, "/tmp/wt/C20")
import websocket  # noqa: E402
from websocket import _handshake  # noqa: E402

print("websocket from", websocket.__file__)

GUID = b"258EAFA5-E914-47DA-95CA-C5AB0DC85B11"


class FakeSock:
    """In-memory transport: records the opening request, answers with a valid 101."""

    def __init__(self, set_cookie_lines):
        self.out = b""
        self.inp = b""
        self.set_cookie_lines = set_cookie_lines

    def gettimeout(self):
        return None

    def settimeout(self, t):
        pass

    def send(self, data):
        self.out += data
        if self.out.endswith(b"\r\n\r\n") and not self.inp:
            key = b""
            for line in self.out.split(b"\r\n"):
                if line.lower().startswith(b"sec-websocket-key:"):
                    key = line.split(b":", 1)[1].strip()
            accept = base64.b64encode(hashlib.sha1(key + GUID).digest())
            resp = (
                b"HTTP/1.1 101 Switching Protocols\r\n"
                b"Upgrade: websocket\r\nConnection: Upgrade\r\n"
                b"Sec-WebSocket-Accept: " + accept + b"\r\n"
            )
            for c in self.set_cookie_lines:
                resp += b"Set-Cookie: " + c.encode() + b"\r\n"
            self.inp = resp + b"\r\n"
        return len(data)

    def recv(self, n):
        d, self.inp = self.inp[:n], self.inp[n:]
        return d

    def shutdown(self, *a):
        pass

    def close(self):
        pass


def connect(host, set_cookie_lines=()):
    """Handshake with ws://host/ ; returns the value of the Cookie header sent ('' if none)."""
    s = FakeSock(list(set_cookie_lines))
    ws = websocket.WebSocket()
    ws.connect(f"ws://{host}/", socket=s)
    sent = [
        l.split(":", 1)[1].strip()
        for l in s.out.decode().split("\r\n")
        if l.lower().startswith("cookie:")
    ]
    ws.sock = None
    return "; ".join(sent)


problems = []

# --- main case: the cookie is re-targeted to a domain the response never named ------
_handshake.CookieJar.jar.clear()
connect(
    "login.shop.example",
    [
        "sid=SECRET; Domain=shop.example",  # the only Domain attribute of the response
        "domain=evil.org",  # a cookie NAMED "domain" (e.g. the tenant's domain)
    ],
)
print("jar:", dict(_handshake.CookieJar.jar))
to_evil = connect("evil.org")
to_shop = connect("www.shop.example")
print(f"handshake to evil.org          sends Cookie: {to_evil!r}")
print(f"handshake to www.shop.example  sends Cookie: {to_shop!r}")
if to_evil:
    problems.append(
        "the response named only Domain=shop.example, yet its cookie is replayed to "
        f"evil.org: {to_evil!r}"
    )
if "sid=SECRET" not in to_shop.split("; "):
    problems.append(
        f"sid=SECRET (Domain=shop.example) is not sent to www.shop.example: {to_shop!r}"
    )

# --- same root cause, other direction: cookies with such names are silently lost ----
_handshake.CookieJar.jar.clear()
connect("login.shop.example", ["sid=SECRET; Domain=shop.example", "version=2"])
got = connect("www.shop.example")
print(f"after [sid; Domain=shop.example] + [version=2]: Cookie: {got!r}")
if got != "sid=SECRET; version=2":
    # informational only (does not decide the exit code): http.cookies cannot hold a
    # cookie with a reserved name, so a small fix may legitimately drop it
    print(
        "NOTE: cookie 'version=2' of a response naming Domain=shop.example is not "
        f"replayed (it became an attribute of sid): {got!r}"
    )

if problems:
    print("\nPROPERTY VIOLATED:")
    for p in problems:
        print(" -", p)
    sys.exit(1)
print("ok")
sys.exit(0)
