#!/venv/bin/python
"""
C06 counterexample 1: a WebSocket object that is connected a second time keeps the
receive state (partial frame in frame_buffer, unfinished fragmented message in
continuous_frame) of the FIRST connection.  The "reassembled message" that is judged
and delivered on the second connection is then glued together from bytes of two
different connections:

  case A  first connection ends after a non-final TEXT fragment; on the second
          connection a perfectly well-formed single-frame text message "hello" is
          refused with WebSocketProtocolException("Illegal frame").
  case B  same start, but the second server opens with a continuation frame: the
          client delivers a text message no server ever sent (stale + new bytes).
  case C  first connection ends in the middle of a frame payload; on the second
          connection the valid message "hello" is never delivered, instead a
          message made of stale payload + raw frame header bytes is delivered.

Exit 1 = violation shown (unmodified library), exit 0 = library behaves as C06 says.
"""
import base64
import hashlib
import socket
import sys
import threading

sys.path.insert(0, "/tmp/wt/C06")
import websocket  # noqa: E402

print("websocket from", websocket.__file__)

GUID = b"258EAFA5-E914-47DA-95CA-C5AB0DC85B11"


def frame(fin, opcode, payload, declared_len=None):
    n = len(payload) if declared_len is None else declared_len
    assert n < 126
    return bytes([(fin << 7) | opcode, n]) + payload


class Server(threading.Thread):
    """Loopback server: connection k gets scripts[k] written after the handshake, then EOF."""

    def __init__(self, scripts):
        super().__init__(daemon=True)
        self.scripts = scripts
        self.lsock = socket.socket()
        self.lsock.bind(("127.0.0.1", 0))
        self.lsock.listen(5)
        self.port = self.lsock.getsockname()[1]

    def run(self):
        for script in self.scripts:
            conn, _ = self.lsock.accept()
            conn.settimeout(5)
            buf = b""
            while b"\r\n\r\n" not in buf:
                buf += conn.recv(4096)
            key = [
                l.split(b":", 1)[1].strip()
                for l in buf.split(b"\r\n")
                if l.lower().startswith(b"sec-websocket-key")
            ][0]
            acc = base64.b64encode(hashlib.sha1(key + GUID).digest())
            conn.sendall(
                b"HTTP/1.1 101 Switching Protocols\r\nUpgrade: websocket\r\n"
                b"Connection: Upgrade\r\nSec-WebSocket-Accept: " + acc + b"\r\n\r\n"
            )
            conn.sendall(script)
            try:
                conn.shutdown(socket.SHUT_WR)
                while conn.recv(4096):
                    pass
            except OSError:
                pass
            conn.close()


def run_case(name, first_conn_bytes, second_conn_bytes, expected):
    """expected: list of messages the second connection must deliver (in order)."""
    srv = Server([first_conn_bytes, second_conn_bytes])
    srv.start()
    url = f"ws://127.0.0.1:{srv.port}/"
    ws = websocket.WebSocket()  # validation ON, no fire_cont_frame
    ws.connect(url, timeout=5)
    try:
        got = ws.recv()
        print(f"[{name}] first connection unexpectedly delivered {got!r}")
    except websocket.WebSocketConnectionClosedException as e:
        print(f"[{name}] first connection lost as planned: {e}")
    ws.close()

    # second use of the same object: a brand new connection, a brand new message stream
    ws.connect(url, timeout=5)
    got = []
    problem = None
    for _ in expected:
        try:
            got.append(ws.recv())
        except websocket.WebSocketException as e:
            problem = e
            break
    ws.close()
    ok = got == expected and problem is None
    print(f"[{name}] second connection: expected {expected!r}, delivered {got!r}, exception {problem!r}")
    print(f"[{name}] {'ok' if ok else 'VIOLATION'}")
    return ok


results = []

# A: unfinished fragmented text message on connection 1 (first two bytes of the euro sign)
results.append(
    run_case(
        "A stale fragment, valid message refused",
        frame(0, 0x1, b"\xe2\x82"),
        frame(1, 0x1, b"hello"),
        ["hello"],
    )
)

# B: the second server (wrongly) starts with a continuation frame: on a fresh connection that
#    has to be a protocol error, nothing may be delivered; the library delivers the euro sign.
srv_ok = None
srv = Server([frame(0, 0x1, b"\xe2\x82"), frame(1, 0x0, b"\xac")])
srv.start()
url = f"ws://127.0.0.1:{srv.port}/"
ws = websocket.WebSocket()
ws.connect(url, timeout=5)
try:
    ws.recv()
except websocket.WebSocketConnectionClosedException:
    pass
ws.close()
ws.connect(url, timeout=5)
try:
    got = ws.recv()
    print(f"[B stale fragment completed by other connection] delivered {got!r} "
          f"although the second connection only carried the lone byte b'\\xac' in an orphan CONT frame")
    print("[B] VIOLATION")
    results.append(False)
except websocket.WebSocketProtocolException as e:
    print(f"[B] refused as it should be: {e}")
    results.append(True)
ws.close()

# C: connection 1 dies inside a frame: header announces 9 payload bytes, only b'AA\xc2' arrive.
results.append(
    run_case(
        "C stale partial frame",
        frame(1, 0x1, b"AA\xc2", declared_len=9),
        frame(1, 0x1, b"hello") + frame(1, 0x1, b"world"),
        ["hello", "world"],
    )
)

if all(results):
    print("RESULT: property holds")
    sys.exit(0)
print("RESULT: C06 violated - receive state of a previous connection survives connect()")
sys.exit(1)
