"""C19 - proxying is decided by options, environment and no_proxy exactly as documented; through an
HTTP proxy the client sends CONNECT host:port (+Basic credentials), proceeds only on 200 and then runs
TLS and the WebSocket handshake through the tunnel.

Honest note: configuration sweep observed at the simulated network (which address is dialled, what
the proxy peer receives); SOCKS proxies are out of reach (python_socks is not installed)."""
import random
import socket as _rs
import struct

from .. import rfc6455 as R
from ..harness import S, Result, InvalidScenario, exc_name
from ..kernel import SimAbort
from ..peers import WSPeer, ProxyPeer, basic_auth
from ..runner import derive_seed
from ..world import World

ID = "C19"
LEVEL = "exploration"
RULE = ("scenario = proxy options {http_proxy_host/port, http_proxy_auth, http_no_proxy} x environment {http_proxy, "
        "HTTP_PROXY, https_proxy, HTTPS_PROXY, no_proxy, NO_PROXY} x scheme x target host (all dotted names of <=3 labels "
        "over {a, b, ab}, IPv4 literals, an IPv6 literal) x proxy_type {http, socks4, socks4a, socks5, socks5h: stand-in for python_socks} x exemption list (hosts, leading-dot domains, '*', canonical CIDR blocks of "
        "every prefix length 0..32 that do / do not contain the address) x proxy reply status x proxy URL with / without a "
        "port x target port x credentials (user+password, user only: RFC 7617 keeps the colon) x create_connection / WebSocketApp.run_forever x optional redirect to another (scheme, host), each hop taking its own decision.  Oracle = independent "
        "decision function written from the property sentence, compared with the address the simulated network saw "
        "dialled and with what the proxy peer received.  Enumerated completely: every (leading-dot domain, host) pair "
        "over the 39 names (each domain also without its dot); every prefix length 0..32 containing / not containing; "
        "every proxy status in {200,201,204,301,400,403,407,500,502,503}.  non-trivial = a proxy is configured; "
        "distinct = (scheme, proxy source, exemption source and kind, relation host/entry, status, auth?)")
ASSUMPTIONS = ["lower- and upper-case variants of one environment variable are never set to different values",
               "no_proxy entries and hosts are lower case", "proxy port is always given with http_proxy_host"]

LABELS = ("a", "b", "ab")
NAMES = [x for x in LABELS] + [f"{x}.{y}" for x in LABELS for y in LABELS] + \
        [f"{x}.{y}.{z}" for x in LABELS for y in LABELS for z in LABELS]
IPS = ("10.8.1.5", "192.168.200.77", "172.16.0.1", "8.8.8.8")
PROXY_HOST, PROXY_ADDR, PROXY_PORT = "proxy.sim.test", "10.7.0.1", 3128
V6 = "2001:db8::7"  # an IPv6 literal target: ws://[2001:db8::7]/ ; in CONNECT and Host it is written with its brackets
STATUSES = (200, 201, 204, 301, 400, 403, 407, 500, 502, 503)


def ip_int(ip):
    return struct.unpack("!I", _rs.inet_aton(ip))[0]


def cidr(ip, prefix, contain=True):
    mask = (0xFFFFFFFF << (32 - prefix)) & 0xFFFFFFFF if prefix else 0
    net = ip_int(ip) & mask
    if not contain:
        if prefix == 0:
            return None
        net ^= 1 << (32 - prefix)
    return _rs.inet_ntoa(struct.pack("!I", net)) + f"/{prefix}"


def exempt(host, entries):
    """decision written from the property sentence."""
    if not entries:
        return False
    for e in entries:
        if e == "*":
            return True
        if e == host:
            return True
        if "/" in e and _is_ip(host):
            a, p = e.split("/")
            try:
                p = int(p)
                if 0 <= p <= 32 and _is_ip(a):
                    mask = (0xFFFFFFFF << (32 - p)) & 0xFFFFFFFF if p else 0
                    if ip_int(host) & mask == ip_int(a) & mask:
                        return True
            except ValueError:
                pass
        if e.startswith(".") and not _is_ip(host):
            d = e.lstrip(".")
            if d and (host == d or host.endswith("." + d)):
                return True
    return False


def _is_ip(h):
    parts = h.split(".")
    return len(parts) == 4 and all(p.isdigit() and 0 <= int(p) <= 255 for p in parts)


def plan(tier, seed):
    items = [{"kind": "domains", "lo": i, "hi": i + 5, "exhaustive": "every (leading-dot domain, host) pair over 39 names"}
             for i in range(0, len(NAMES), 5)]
    items.append({"kind": "cidr", "exhaustive": "every IPv4 prefix length 0..32, containing and not containing, option and environment"})
    items.append({"kind": "status", "exhaustive": "every proxy reply status x scheme x auth"})
    items.append({"kind": "app", "exhaustive": "proxy by option / environment x credentials (none, user+password, user only) x exemption, through WebSocketApp.run_forever"})
    items.append({"kind": "socks", "exhaustive": "proxy_type socks4/4a/5/5h (python_socks stand-in) x scheme x credentials x exemption list (option / environment) relations"})
    items.append({"kind": "ipv6", "exhaustive": "IPv6 literal target x scheme x target port x credentials x no_proxy {none, *, other, itself} x api"})
    items.append({"kind": "portless", "exhaustive": "every proxy environment variable x proxy URL with / without port x target port"})
    items.append({"kind": "successive", "exhaustive": "judged connection {proxy+credentials A, proxy without credentials, exempt, direct} after earlier connections of the process {credentials B, none, exempt, direct} x scheme x api"})
    items.append({"kind": "redirects", "exhaustive": "redirect from (scheme, host) to (scheme, host) x proxy by option / environment x exemption of either host"})
    n = 6000 if tier == "quick" else 480000
    per = 250 if tier == "quick" else 2500
    for s in range(0, n, per):
        items.append({"kind": "rand", "start": s, "count": per})
    return items


def _base(**kw):
    d = {"scheme": "ws", "host": "a.b", "opt_proxy": True, "opt_auth": None, "opt_no_proxy": None, "env": {},
         "status": 200, "seed": 1}
    d.update(kw)
    return d


def expand(item, seed):
    k = item["kind"]
    if k == "domains":
        for d in NAMES[item["lo"]:item["hi"]]:
            for h in NAMES:
                yield _base(host=h, opt_no_proxy=["." + d])
                if (len(d) + len(h)) % 3 == 0:
                    yield _base(host=h, opt_proxy=False, env={"http_proxy": f"http://{PROXY_HOST}:{PROXY_PORT}", "no_proxy": "." + d})
                    yield _base(host=h, opt_no_proxy=[d])
    elif k == "cidr":
        for ip in IPS:
            for p in range(0, 33):
                for contain in (True, False):
                    c = cidr(ip, p, contain)
                    if c is None:
                        continue
                    yield _base(host=ip, opt_no_proxy=[c])
                    yield _base(host=ip, opt_proxy=False, scheme="wss" if p % 2 else "ws",
                                env={("https_proxy" if p % 2 else "http_proxy"): f"http://{PROXY_HOST}:{PROXY_PORT}",
                                     "NO_PROXY" if p % 4 == 0 else "no_proxy": "localhost, " + c})
    elif k == "successive":
        pres = ({"opt_proxy": True, "opt_auth": ["bob", "bpw"]}, {"opt_proxy": True}, {"opt_proxy": True, "opt_no_proxy": ["a.b"]}, {"opt_proxy": False})
        for scheme in ("ws", "wss"):
            for api in (None, "app"):
                for judged in ({"opt_auth": ["alice", "apw"]}, {"opt_auth": None}, {"opt_no_proxy": ["a.b"]}, {"opt_proxy": False}):
                    for p1 in pres:
                        yield _base(scheme=scheme, api=api, prelude=[dict(p1)], **judged)
                        yield _base(scheme=scheme, api=api, prelude=[dict(p1), {"opt_proxy": True, "opt_auth": ["carol", "cpw"]}], **judged)
    elif k == "app":
        for scheme in ("ws", "wss"):
            for auth in (None, ["user", "secret"], ["solo", ""]):
                for np in (None, ["a.b"], [".b"], ["*"]):
                    yield _base(scheme=scheme, opt_auth=auth, opt_no_proxy=np, api="app")
            for var in ("http_proxy", "https_proxy"):
                for url in (f"http://{PROXY_HOST}:{PROXY_PORT}", f"http://eu@{PROXY_HOST}:{PROXY_PORT}", f"http://eu:ep%40ss@{PROXY_HOST}:{PROXY_PORT}",
                            f"http://eu:p%2Fs%3Fs%23@{PROXY_HOST}:{PROXY_PORT}", f"http://e%2Fu:pw@{PROXY_HOST}:{PROXY_PORT}",
                            f"http://e%3Au:p%3Aw@{PROXY_HOST}:{PROXY_PORT}"):
                    yield _base(scheme=scheme, opt_proxy=False, env={var: url}, api="app")
                    yield _base(scheme=scheme, opt_proxy=False, env={var: url})
    elif k == "socks":
        for scheme in ("ws", "wss"):
            for socks in ("socks4", "socks4a", "socks5", "socks5h"):
                for auth in (None, ["user", "secret"]):
                    for host, nps in (("a.b", (None, ["*"], ["a.b"], [".b"], [".a.b"], ["b"], ["x.b"])),
                                      ("10.8.1.5", (None, ["10.8.1.5"], ["10.8.0.0/16"], ["10.9.0.0/16"]))):
                        for np in nps:
                            yield _base(scheme=scheme, host=host, opt_auth=auth, opt_no_proxy=np, socks=socks)
                            if np is not None:
                                yield _base(scheme=scheme, host=host, opt_auth=auth, env={"no_proxy": ",".join(np)}, socks=socks, api="app" if auth else None)
    elif k == "ipv6":
        for scheme in ("ws", "wss"):
            for tp in (None, 8080):
                for auth in (None, ["user", "secret"]):
                    for np in (None, ["*"], ["a.b"], [V6]):
                        for api in (None, "app"):
                            yield _base(host=V6, scheme=scheme, opt_auth=auth, opt_no_proxy=np, target_port=tp, api=api)
                yield _base(host=V6, scheme=scheme, opt_proxy=False, target_port=tp,
                            env={("https_proxy" if scheme == "wss" else "http_proxy"): f"http://{PROXY_HOST}:{PROXY_PORT}"})
    elif k == "portless":
        for scheme in ("ws", "wss"):
            for var in ("http_proxy", "HTTP_PROXY", "https_proxy", "HTTPS_PROXY"):
                for url in (f"http://{PROXY_HOST}", f"http://{PROXY_HOST}/", f"http://eu:ep%40ss@{PROXY_HOST}", f"http://{PROXY_HOST}:{PROXY_PORT}"):
                    for tp in (None, 8080, 8443):
                        yield _base(scheme=scheme, opt_proxy=False, env={var: url}, target_port=tp)
    elif k == "redirects":
        urls = (f"http://{PROXY_HOST}:{PROXY_PORT}", f"http://{PROXY_HOST}")
        for s1 in ("ws", "wss"):
            for s2 in ("ws", "wss"):
                for h1, h2 in (("a.b", "b.a"), ("a.b", "ab.b"), ("b.a", "a.b"), ("a", "a.b")):
                    for opt in (True, False):
                        for env in ({}, {"http_proxy": urls[0]}, {"https_proxy": urls[0]}, {"http_proxy": urls[0], "https_proxy": urls[1]}):
                            for np in (None, [h1], [h2], ["." + h2], ["." + h1.split(".")[-1]]):
                                yield _base(scheme=s1, host=h1, opt_proxy=opt, env=dict(env), opt_no_proxy=np, redirect={"scheme": s2, "host": h2})
                            if env:
                                yield _base(scheme=s1, host=h1, opt_proxy=opt, env=dict(env, no_proxy=h1), redirect={"scheme": s2, "host": h2})
                                yield _base(scheme=s1, host=h1, opt_proxy=opt, env=dict(env, NO_PROXY="." + h2), redirect={"scheme": s2, "host": h2})
    elif k == "status":
        for st in STATUSES:
            for scheme in ("ws", "wss"):
                for auth in (None, ["user", "secret"], ["solo", ""], ["a" * 40, "b" * 16], ["a" * 40, "b" * 17], ["a" * 100, "b" * 100]):
                    yield _base(scheme=scheme, status=st, opt_auth=auth)
    else:
        for i in range(item["start"], item["start"] + item["count"]):
            yield gen(random.Random(derive_seed(seed, ID, i)))


def gen(rng):
    host = rng.choice(NAMES) if rng.random() < 0.7 else rng.choice(IPS)
    sc = _base(scheme=rng.choice(("ws", "ws", "wss")), host=host, opt_proxy=rng.random() < 0.5,
               status=rng.choice((200, 200, 200, 200) + STATUSES), seed=rng.randrange(1 << 30))
    if sc["opt_proxy"] and rng.random() < 0.3:
        sc["opt_auth"] = rng.choice((["user", "secret"], ["u", "p:w"], ["solo", ""], ["svc-account-" + "x" * 30, "p" * rng.choice((14, 15, 16, 60))],
                                     ["u" * 57, ""], ["u" * 58, ""]))
    env = {}
    for var in ("http_proxy", "https_proxy"):
        if rng.random() < 0.45:
            v = var if rng.random() < 0.6 else var.upper()
            auth = rng.choice(("", "", "eu:ep%40ss@", "eu@", "eu:p%2Fs%3Fs%23@", "e%2Fu:pw@", "e%3Au:p%3Aw@"))
            env[v] = f"http://{auth}{PROXY_HOST}:{PROXY_PORT}" if rng.random() < 0.8 else f"http://{auth}{PROXY_HOST}" + rng.choice(("", "/"))
            if rng.random() < 0.15:
                env[var.upper() if v == var else var] = env[v]
    entries = []
    r = rng.random()
    if r < 0.2:
        entries = []
    else:
        for _ in range(rng.randrange(1, 4)):
            x = rng.random()
            if x < 0.1:
                entries.append("*")
            elif x < 0.3:
                entries.append(host if rng.random() < 0.5 else rng.choice(NAMES))
            elif x < 0.7:
                entries.append("." + rng.choice(NAMES))
            elif _is_ip(host):
                c = cidr(host, rng.randrange(0, 33), rng.random() < 0.5)
                if c:
                    entries.append(c)
            else:
                entries.append(cidr(rng.choice(IPS), rng.randrange(0, 33)))
    if entries:
        if rng.random() < 0.5:
            sc["opt_no_proxy"] = entries
        else:
            env[rng.choice(("no_proxy", "NO_PROXY"))] = rng.choice((",", ", ")).join(entries)
    sc["env"] = env
    if rng.random() < 0.15:
        sc["api"] = "app"
    if rng.random() < 0.1 and not _is_ip(host):
        h2 = rng.choice([n for n in NAMES if n != host])
        sc["redirect"] = {"scheme": rng.choice(("ws", "wss")), "host": h2}
        sc["status"] = 200
    elif rng.random() < 0.1:
        sc["target_port"] = rng.choice((8080, 8443, 81))
    if sc["opt_proxy"] and not sc.get("redirect") and sc.get("status", 200) == 200 and rng.random() < 0.12:
        sc["socks"] = rng.choice(("socks4", "socks4a", "socks5", "socks5h"))
    if not sc.get("redirect") and rng.random() < 0.06 and not any("/" in e for e in (sc.get("opt_no_proxy") or [])):
        sc["host"] = V6
    if not sc.get("redirect") and not sc.get("socks") and sc.get("status", 200) == 200 and rng.random() < 0.15:
        sc["prelude"] = [rng.choice(({"opt_proxy": True, "opt_auth": ["bob", "bpw"]}, {"opt_proxy": True}, {"opt_proxy": False},
                                     {"opt_proxy": True, "opt_no_proxy": ["*"]})) for _ in range(rng.randrange(1, 3))]
    return sc


STUB = ["optional package `python_socks` (sim/stubs_socks: which proxy it is asked to dial and for which destination is recorded, "
        "the SOCKS negotiation itself is not modelled; only in the scenarios with proxy_type socks*)"]


def run(sc, choices=None):
    from .. import seams
    seams.set_socks(bool(sc.get("socks")))
    try:
        return _run(sc, choices)
    finally:
        seams.set_socks(False)


def _run(sc, choices=None):
    res = Result()
    try:
        scheme, host = sc["scheme"], sc["host"]
        socks = sc.get("socks")
        if socks is not None and (socks not in ("socks4", "socks4a", "socks5", "socks5h") or not sc.get("opt_proxy") or sc.get("redirect")
                                  or int(sc.get("status", 200)) != 200):
            raise InvalidScenario("socks: option-given proxy, no redirect")
        if scheme not in ("ws", "wss") or (host not in NAMES and not _is_ip(host) and host != V6):
            raise InvalidScenario("scheme/host")
        if host == V6 and (sc.get("redirect") or any("/" in e for e in (sc.get("opt_no_proxy") or []))):
            raise InvalidScenario("IPv6 target: plain scenarios only")
        env = dict(sc.get("env", {}))
        for k in env:
            if k not in ("http_proxy", "HTTP_PROXY", "https_proxy", "HTTPS_PROXY", "no_proxy", "NO_PROXY"):
                raise InvalidScenario("env var")
        for lo in ("http_proxy", "https_proxy", "no_proxy"):
            if lo in env and lo.upper() in env and env[lo] != env[lo.upper()]:
                raise InvalidScenario("conflicting case variants")
        status = int(sc.get("status", 200))
        if not 200 <= status <= 599:
            raise InvalidScenario("status")
        opt_np = sc.get("opt_no_proxy")
        auth = sc.get("opt_auth")
        if auth is not None and (len(auth) != 2 or not auth[0]):
            raise InvalidScenario("auth")
        for e in (opt_np or []):
            if not isinstance(e, str) or not e or e != e.lower() or " " in e:
                raise InvalidScenario("no_proxy entry")
        prelude = list(sc.get("prelude") or [])
        if len(prelude) > 3 or (prelude and (socks or sc.get("redirect") or status != 200)):
            raise InvalidScenario("prelude")
        for pre in prelude:
            if not isinstance(pre, dict) or set(pre) - {"opt_proxy", "opt_auth", "opt_no_proxy"}:
                raise InvalidScenario("prelude entry")
            if pre.get("opt_auth") is not None and (len(pre["opt_auth"]) != 2 or not pre["opt_auth"][0]):
                raise InvalidScenario("prelude auth")
            for e in (pre.get("opt_no_proxy") or []):
                if not isinstance(e, str) or not e or e != e.lower() or " " in e:
                    raise InvalidScenario("prelude no_proxy entry")
    except (KeyError, TypeError, ValueError) as e:
        raise InvalidScenario(str(e))
    if sc.get("redirect"):
        return run_redirect(sc, env, opt_np, auth)
    tls = scheme == "wss"
    port = 443 if tls else 80
    if sc.get("target_port") is not None:
        port = int(sc["target_port"])
        if not 1 <= port <= 65535:
            raise InvalidScenario("target_port")
    w = World(seed=int(sc.get("seed", 1)), step_cap=500_000, env=env)
    origin_peers, proxy_peers, tls_peers = [], [], []

    def origin(conn=None, target=None):
        p = WSPeer(w, {})
        origin_peers.append(p)
        if tls:
            from ..tls import TLSPeer
            tp = TLSPeer(w, p, "good")
            tls_peers.append(tp)
            return tp
        return p

    def proxy(conn):
        if socks:
            from ..peers import SocksStubPeer
            pp = SocksStubPeer(w, {}, origin)
        else:
            pp = ProxyPeer(w, {"status": status}, origin)
        proxy_peers.append(pp)
        return pp

    uhost = f"[{host}]" if host == V6 else host  # the way the host is written in a URL / an authority
    origin_addr = host if _is_ip(host) or host == V6 else "10.9.0.1"
    if host == V6:
        w.net.add_host(host, [(_rs.AF_INET6, origin_addr)])
        res.probes["ipv6_literal_target"] = 1
    elif not _is_ip(host):
        w.net.add_host(host, [(_rs.AF_INET, origin_addr)])
    w.net.listen(origin_addr, port, origin)
    w.net.add_host(PROXY_HOST, [(_rs.AF_INET, PROXY_ADDR)])
    w.net.listen(PROXY_ADDR, PROXY_PORT, proxy)
    w.net.listen(PROXY_ADDR, 80, proxy)  # where a proxy URL without a port points
    outcome = None
    with w:
        ws = w.ws
        if tls:
            from .. import tls as simtls
            simtls.install()
        kw = {}
        if sc.get("opt_proxy"):
            kw["http_proxy_host"] = PROXY_HOST
            kw["http_proxy_port"] = PROXY_PORT
            if auth:
                kw["http_proxy_auth"] = tuple(auth)
            if socks:
                kw["proxy_type"] = socks
        if opt_np is not None:
            kw["http_no_proxy"] = list(opt_np)
        if tls:
            import ssl
            kw["sslopt"] = {"cert_reqs": ssl.CERT_NONE, "check_hostname": False}
        url_ = f"{scheme}://{uhost}{':%d' % port if sc.get('target_port') is not None else ''}/res?x=1"
        # 'prelude': connections the same process made before the judged one, to the same target, with their own proxy
        # options (other credentials, none, exempt ...).  They are not judged; the judged connection must not inherit from them.
        for pre in prelude:
            kwp = {}
            if pre.get("opt_proxy"):
                kwp["http_proxy_host"] = PROXY_HOST
                kwp["http_proxy_port"] = PROXY_PORT
                if pre.get("opt_auth"):
                    kwp["http_proxy_auth"] = tuple(pre["opt_auth"])
            if pre.get("opt_no_proxy") is not None:
                kwp["http_no_proxy"] = list(pre["opt_no_proxy"])
            if tls:
                kwp["sslopt"] = dict(kw["sslopt"])
            try:
                c0 = ws.create_connection(url_, timeout=3, **kwp)
                c0.close(timeout=1)
            except SimAbort:
                raise
            except BaseException:  # noqa
                pass
            res.probes["earlier_connections_in_process"] = 1
        n_sock0, n_pp0 = len(w.net.sockets), len(proxy_peers)
        try:
            if sc.get("api") == "app":
                # the same options through WebSocketApp.run_forever (which has its own defaults for them)
                seen = []
                sslopt = kw.pop("sslopt", None)

                def _opened(a):
                    seen.append("open")
                    a.close()

                app = ws.WebSocketApp(url_, on_open=_opened, on_error=lambda a, e: seen.append(e))
                app.run_forever(sslopt=sslopt, **kw)
                errs = [x for x in seen if x != "open"]
                if errs and "open" not in seen:
                    raise errs[0]
                outcome = ("ok",)
                res.probes["through_websocketapp"] = 1
            else:
                c = ws.create_connection(url_, timeout=3, **kw)
                outcome = ("ok",)
                c.close(timeout=1)
        except SimAbort:
            outcome = ("abort", w.k.abort_reason)
        except BaseException as e:  # noqa
            outcome = ("exc", exc_name(e), isinstance(e, ws.WebSocketProxyException), str(e)[:160])
        open_socks = [s.index for s in w.net.sockets[n_sock0:] if not s.closed]
    proxy_peers = proxy_peers[n_pp0:]
    res.absorb(w, exclude_kinds=("send", "recv", "deliver") if tls else ())
    # ------------------------------------------------------------ independent decision
    entries = opt_np if opt_np else None
    np_src = "option" if entries else None
    if not entries:
        v = env.get("no_proxy", env.get("NO_PROXY", ""))
        ents = [x.strip() for x in v.split(",") if x.strip()]
        if ents:
            entries, np_src = ents, "env"
    ex = exempt(host, entries)
    var = "https_proxy" if tls else "http_proxy"
    envp = env.get(var, env.get(var.upper()))
    if sc.get("opt_proxy"):
        src, want_auth = "option", (auth if auth else None)
    elif envp:
        src = "env"
        want_auth = _env_auth(envp)
    else:
        src, want_auth = None, None
    want_proxy = src is not None and not ex
    want_pport = PROXY_PORT if src == "option" or (envp and envp.rstrip("/").endswith(f":{PROXY_PORT}")) else 80
    dialled = [s.connect_attempts[0][0] for s in w.net.sockets[n_sock0:] if s.connect_attempts]
    dialled_ports = [s.connect_attempts[0][1] for s in w.net.sockets[n_sock0:] if s.connect_attempts]
    via_proxy = bool(dialled) and dialled[0] == PROXY_ADDR
    rel = _relation(host, entries)
    ctx = f"{rel}"
    if outcome[0] == "abort":
        res.violate("connect_hangs", ctx, str(outcome))
    elif want_proxy != via_proxy:
        clause = "proxy_bypassed" if want_proxy else ("not_exempted" if ex else "proxy_used_without_configuration")
        if want_proxy and ex is False and src is not None:
            clause = "wrongly_exempted"
        res.violate(clause, ctx, f"{scheme}://{host} proxy source={src} no_proxy({np_src})={entries}: dialled {dialled}, "
                    f"expected {'proxy' if want_proxy else 'origin'} first")
    elif via_proxy and dialled_ports[0] != want_pport:
        res.violate("proxy_dialled_on_wrong_port", "portless_proxy_url" if want_pport == 80 else "proxy_port",
                    f"{scheme}://{host} proxy {envp or (PROXY_HOST, PROXY_PORT)}: dialled port {dialled_ports[0]}, expected {want_pport}")
    elif via_proxy and socks:
        res.probes["via_socks_stand_in"] = 1
        pp = proxy_peers[0] if proxy_peers else None
        want_line = "SOCKS %s %s %d rdns=%s user=%s pass=%s" % ("SOCKS4" if socks.startswith("socks4") else "SOCKS5", host, port,
                                                               socks in ("socks4a", "socks5h"), want_auth[0] if want_auth else None,
                                                               want_auth[1] if want_auth else None)
        if pp is None or pp.line != want_line:
            res.violate("bad_connect_request", "socks", f"asked of python_socks: {None if pp is None else pp.line!r}, expected {want_line!r}")
        elif outcome[0] != "ok":
            res.violate("tunnel_not_used_after_200", "socks", f"outcome {outcome}")
        else:
            first = bytes(pp.after_connect[:4])
            op = origin_peers[-1] if origin_peers else None
            if tls and not (first[:1] == b"\x16" and first[1:2] == b"\x03"):
                res.violate("no_tls_inside_tunnel", "socks", f"first bytes through the proxy {first!r}")
            elif not tls and first != b"GET ":
                res.violate("no_handshake_inside_tunnel", "socks", f"first bytes through the proxy {first!r}")
            elif op is None or op.request is None or op.request["target"] != "/res?x=1" or \
                    R.header_values(op.request, "Host") != [uhost if sc.get("target_port") is None else f"{uhost}:{port}"]:
                res.violate("tunnel_handshake_not_addressed_to_origin", "socks", f"origin saw {None if op is None or op.request is None else (op.request['target'], R.header_values(op.request, 'Host'))}")
    elif via_proxy:
        pp = proxy_peers[0] if proxy_peers else None
        if pp is None or pp.request is None:
            res.violate("bad_connect_request", "tunnel", "proxy saw no complete CONNECT head")
        else:
            rq = pp.request
            hp = f"{uhost}:{port}"
            pa = R.header_values(rq, "Proxy-Authorization")
            if rq["method"] != "CONNECT" or rq["target"] != hp or rq["version"] != "HTTP/1.1" or rq["problems"]:
                res.violate("bad_connect_request", "tunnel", f"request line {rq['method']} {rq['target']} {rq['version']} {rq['problems']}, expected CONNECT {hp}")
            elif R.header_values(rq, "Host") != [hp]:
                res.violate("bad_connect_request", "tunnel", f"Host {R.header_values(rq, 'Host')}, expected {hp}")
            elif want_auth and pa != [basic_auth(want_auth[0], want_auth[1])]:
                res.violate("proxy_credentials_wrong", "tunnel", f"Proxy-Authorization {pa}, expected {basic_auth(want_auth[0], want_auth[1])}")
            elif not want_auth and pa:
                res.violate("proxy_credentials_wrong", "tunnel", f"unexpected Proxy-Authorization {pa}")
            elif status != 200:
                if 200 < status < 300:
                    pass  # other 2xx: 'proceeds only on a 200 reply' - raising is demanded
                if outcome[0] != "exc" or not outcome[2]:
                    res.violate("proceeded_without_200", f"status_{status // 100}xx", f"proxy answered {status}, outcome {outcome}")
                elif pp.after_connect:
                    res.violate("proceeded_without_200", f"status_{status // 100}xx", f"client kept talking after {status}: {bytes(pp.after_connect[:40])!r}")
                elif open_socks:
                    res.violate("proxy_socket_leaked", f"status_{status // 100}xx", f"sockets left open {open_socks}")
            else:
                if outcome[0] != "ok":
                    res.violate("tunnel_failed_after_200", "tunnel", f"outcome {outcome}")
                else:
                    first = bytes(pp.after_connect[:4])
                    if tls and not (first[:1] == b"\x16" and first[1:2] == b"\x03"):
                        res.violate("no_tls_inside_tunnel", "tunnel", f"first bytes after CONNECT {first!r}")
                    if not tls and first != b"GET ":
                        res.violate("no_handshake_inside_tunnel", "tunnel", f"first bytes after CONNECT {first!r}")
                    op = origin_peers[-1] if origin_peers else None
                    if op is None or op.request is None:
                        res.violate("no_handshake_inside_tunnel", "tunnel", "origin saw no request")
                    elif op.request["target"] != "/res?x=1" or R.header_values(op.request, "Host") != [uhost if sc.get("target_port") is None else f"{uhost}:{port}"]:
                        res.violate("tunnel_handshake_not_addressed_to_origin", "tunnel",
                                    f"target {op.request['target']} Host {R.header_values(op.request, 'Host')}")
    else:
        if outcome[0] != "ok":
            res.violate("direct_connect_failed", ctx, f"outcome {outcome}")
        elif proxy_peers:
            res.violate("proxy_contacted_although_direct", ctx, "proxy was contacted")
    res.sig = repr((scheme, src, np_src, rel, status if want_proxy else 0, bool(want_auth), _is_ip(host), sc.get("api"), socks))
    if socks:
        for v in res.violations:
            if not v["ctx"].startswith("socks"):
                v["ctx"] = "socks/" + v["ctx"]
    res.nontrivial = src is not None
    if via_proxy:
        res.probes["via_proxy"] = 1
    if ex:
        res.probes["exempt_" + rel] = 1
    return res


def _env_auth(url):
    """credentials of a proxy URL, written from RFC 3986: userinfo is what stands before the last '@' of the authority, user and
    password are separated by the first ':', and percent-escapes are decoded AFTER the splitting."""
    from urllib.parse import unquote
    rest = url.split("://", 1)[1]
    authority = rest.split("/", 1)[0].split("?", 1)[0].split("#", 1)[0]
    if "@" not in authority:
        return None
    userinfo = authority.rsplit("@", 1)[0]
    user, _, pw = userinfo.partition(":")
    return [unquote(user), unquote(pw)]


def _decide(scheme, host, sc, env, opt_np):
    """-> (goes through the proxy?, proxy port, source) for one hop, from the property sentence."""
    entries = opt_np if opt_np else None
    if not entries:
        v = env.get("no_proxy", env.get("NO_PROXY", ""))
        entries = [x.strip() for x in v.split(",") if x.strip()] or None
    ex = exempt(host, entries)
    var = "https_proxy" if scheme == "wss" else "http_proxy"
    envp = env.get(var, env.get(var.upper()))
    if sc.get("opt_proxy"):
        src, pport = "option", PROXY_PORT
    elif envp:
        src, pport = "env", (PROXY_PORT if envp.rstrip("/").endswith(f":{PROXY_PORT}") else 80)
    else:
        src, pport = None, None
    return (src is not None and not ex), pport, src


def run_redirect(sc, env, opt_np, auth):
    """The first server answers with a redirect to another (scheme, host): every hop takes its own proxy decision."""
    res = Result()
    socks = None  # (redirect scenarios use the HTTP proxy only)
    try:
        hops = [(sc["scheme"], sc["host"]), (sc["redirect"]["scheme"], sc["redirect"]["host"])]
        for s_, h_ in hops:
            if s_ not in ("ws", "wss") or h_ not in NAMES:
                raise InvalidScenario("redirect hop")
        if hops[0][1] == hops[1][1]:
            raise InvalidScenario("redirect to the same host")
    except (KeyError, TypeError) as e:
        raise InvalidScenario(str(e))
    w = World(seed=int(sc.get("seed", 1)), step_cap=600_000, env=env)
    made = []  # (hop index, peer)
    proxy_peers = []

    def origin_for(i):
        def origin(conn=None, target=None):
            s_, h_ = hops[i]
            if i == 0:
                p = WSPeer(w, {"response": {"mode": "custom", "status": 302, "reason": "Found", "then": "eof",
                                            "headers": [["Location", f"{hops[1][0]}://{hops[1][1]}/res2"]]}})
            else:
                p = WSPeer(w, {})
            made.append((i, p))
            if s_ == "wss":
                from ..tls import TLSPeer
                return TLSPeer(w, p, "good")
            return p
        return origin

    def proxy(conn):
        def inner(c, target):
            hostport = target or ""
            i = 0 if hostport.split(":")[0] == hops[0][1] else 1
            return origin_for(i)(c, target)
        pp = ProxyPeer(w, {"status": 200}, inner)
        proxy_peers.append(pp)
        return pp

    for i, (s_, h_) in enumerate(hops):
        ad = f"10.9.0.{i + 1}"
        w.net.add_host(h_, [(_rs.AF_INET, ad)])
        w.net.listen(ad, 443 if s_ == "wss" else 80, origin_for(i))
    w.net.add_host(PROXY_HOST, [(_rs.AF_INET, PROXY_ADDR)])
    w.net.listen(PROXY_ADDR, PROXY_PORT, proxy)
    w.net.listen(PROXY_ADDR, 80, proxy)
    with w:
        ws = w.ws
        from .. import tls as simtls
        if any(s_ == "wss" for s_, _ in hops):
            simtls.install()
        kw = {}
        if sc.get("opt_proxy"):
            kw["http_proxy_host"], kw["http_proxy_port"] = PROXY_HOST, PROXY_PORT
            if auth:
                kw["http_proxy_auth"] = tuple(auth)
            if socks:
                kw["proxy_type"] = socks
        if opt_np is not None:
            kw["http_no_proxy"] = list(opt_np)
        import ssl
        kw["sslopt"] = {"cert_reqs": ssl.CERT_NONE, "check_hostname": False}
        try:
            c = ws.create_connection(f"{hops[0][0]}://{hops[0][1]}/res?x=1", timeout=3, **kw)
            outcome = ("ok",)
            c.close(timeout=1)
        except SimAbort:
            outcome = ("abort", w.k.abort_reason)
        except BaseException as e:  # noqa
            outcome = ("exc", exc_name(e), str(e)[:160])
    res.absorb(w, exclude_kinds=("send", "recv", "deliver", "recv_call"))
    dialled = [s.connect_attempts[0] for s in w.net.sockets if s.connect_attempts]
    sig = []
    if outcome[0] != "ok":
        res.violate("connect_hangs" if outcome[0] == "abort" else "direct_connect_failed", "redirect", f"{hops}: outcome {outcome}; dialled {dialled}")
    elif len(dialled) != 2:
        res.violate("direct_connect_failed", "redirect", f"{hops}: {len(dialled)} connections for two hops: {dialled}")
    else:
        ci = 0
        for i, (s_, h_) in enumerate(hops):
            want, pport, src = _decide(s_, h_, sc, env, opt_np)
            got_proxy = dialled[i][0] == PROXY_ADDR
            sig.append((s_, src, want))
            hop = "first_hop" if i == 0 else "redirected_hop"
            if want != got_proxy:
                res.violate("proxy_bypassed" if want else "proxy_used_although_exempt_or_unconfigured", hop,
                            f"hop {i} {s_}://{h_}: dialled {dialled[i]}, expected {'the proxy' if want else 'the origin'}; proxy by "
                            f"{'option' if sc.get('opt_proxy') else env}; no_proxy {opt_np or env.get('no_proxy') or env.get('NO_PROXY')}")
                break
            if want:
                if dialled[i][1] != pport:
                    res.violate("proxy_dialled_on_wrong_port", hop, f"hop {i} {s_}://{h_}: dialled {dialled[i]}, expected proxy port {pport}")
                    break
                pp = proxy_peers[ci] if ci < len(proxy_peers) else None
                ci += 1
                hp = f"{h_}:{443 if s_ == 'wss' else 80}"
                if pp is None or pp.request is None or pp.request["method"] != "CONNECT" or pp.request["target"] != hp:
                    res.violate("bad_connect_request", hop, f"hop {i}: CONNECT {None if pp is None or pp.request is None else pp.request['target']}, expected {hp}")
                    break
    res.sig = repr(("redirect", tuple(sig), bool(opt_np), sorted(env)))
    res.nontrivial = bool(sc.get("opt_proxy") or env)
    res.probes["redirected_hop"] = 1
    return res


def _relation(host, entries):
    """context class: how the host relates to the exemption list."""
    if not entries:
        return "no_list"
    if "*" in entries:
        return "star"
    if host in entries:
        return "listed_itself"
    rels = set()
    for e in entries:
        if "/" in e:
            p = e.split("/")[1]
            rels.add("cidr_32" if p == "32" else "cidr")
        elif e.startswith("."):
            d = e.lstrip(".")
            if host == d:
                rels.add("domain_itself")
            elif host.endswith("." + d):
                rels.add("subdomain")
            elif host.endswith(d):
                rels.add("lookalike_suffix")
            else:
                rels.add("unrelated_domain")
        else:
            rels.add("other_host")
    for pref in ("lookalike_suffix", "cidr_32", "cidr", "subdomain", "domain_itself", "unrelated_domain", "other_host"):
        if pref in rels:
            return pref
    return "other"


def sample_view(sc, r):
    return {k: sc.get(k) for k in ("scheme", "host", "opt_proxy", "opt_auth", "opt_no_proxy", "env", "status", "target_port", "redirect", "api")}


# round 7 summary for the evidence file
RULE = RULE + "  Round 7: 'prelude' - up to three earlier connections of the same process to the same target with other proxy options (other credentials, none, exempt, direct) before the judged one (family 'successive': judged {credentials A, none, exempt, direct} x earlier {credentials B, none, exempt, direct} x scheme x api; 15 % of the seeded scenarios): nothing is inherited."
