#!/bin/sh
# usage: soak.sh <tier> <seed> [<seed> ...]  - runs every check at each seed, prints one line per run; evidence/replays go to a scratch dir
TIER="$1"; shift
HERE="$(cd "$(dirname "$0")/.." && pwd)"
OUT="$(mktemp -d /tmp/verif-soak.XXXXXX)"
trap 'rm -rf "$OUT"' EXIT
BAD=0
for SEED in "$@"; do
  for P in C01 C02 C03 C04 C05 C06 C07 C08 C09 C10 C11 C12 C13 C14 C15 C16 C17 C18 C19 C20; do
    VERIF_SEED=$SEED VERIF_OUT="$OUT" "$HERE/check" $P $TIER > "$OUT/log" 2>&1
    RC=$?
    LINE=$(grep -E "^$P $TIER" "$OUT/log" | sed -E 's/faults=.*new_violations/new_violations/')
    echo "seed=$SEED rc=$RC $LINE"
    if [ $RC -ne 0 ]; then BAD=1; grep -E "clause=|HARNESS|detail" "$OUT/log" | grep -v KNOWN | head -8; mkdir -p "$HERE/soak_failures"; cp "$OUT"/replays/$P-* "$HERE/soak_failures/" 2>/dev/null; fi
  done
done
exit $BAD
