"""C20 counterexample 1: a cookie set with "Domain=." (a Domain attribute that names
no domain at all) is kept and afterwards replayed to every host whose name is written
with a trailing dot - hosts that share no domain with each other or with the setter.

Exits 1 (and prints what went wrong) against the unmodified library, 0 if the jar
drops the cookie (or at least never replays it to unrelated hosts).
"""
import base64
import hashlib
import sys

sys.path.insert(0, "/tmp/wt/C20")
import websocket  # noqa: E402
from websocket import _handshake  # noqa: E402

print("websocket from", websocket.__file__)

GUID = b"258EAFA5-E914-47DA-95CA-C5AB0DC85B11"


class FakeSock:
    """In-memory transport: records the opening request, answers with a valid 101."""

    def __init__(self, set_cookie_lines):
        self.out = b""
        self.inp = b""
        self.set_cookie_lines = set_cookie_lines

    def gettimeout(self):
        return None

    def settimeout(self, t):
        pass

    def send(self, data):
        self.out += data
        if self.out.endswith(b"\r\n\r\n") and not self.inp:
            key = b""
            for line in self.out.split(b"\r\n"):
                if line.lower().startswith(b"sec-websocket-key:"):
                    key = line.split(b":", 1)[1].strip()
            accept = base64.b64encode(hashlib.sha1(key + GUID).digest())
            resp = (
                b"HTTP/1.1 101 Switching Protocols\r\n"
                b"Upgrade: websocket\r\nConnection: Upgrade\r\n"
                b"Sec-WebSocket-Accept: " + accept + b"\r\n"
            )
            for c in self.set_cookie_lines:
                resp += b"Set-Cookie: " + c.encode() + b"\r\n"
            self.inp = resp + b"\r\n"
        return len(data)

    def recv(self, n):
        d, self.inp = self.inp[:n], self.inp[n:]
        return d

    def shutdown(self, *a):
        pass

    def close(self):
        pass


def connect(host, set_cookie_lines=()):
    """Handshake with ws://host/ ; returns the list of Cookie header lines sent."""
    s = FakeSock(list(set_cookie_lines))
    ws = websocket.WebSocket()
    ws.connect(f"ws://{host}/", socket=s)
    sent = [
        l for l in s.out.decode().split("\r\n") if l.lower().startswith("cookie:")
    ]
    ws.sock = None
    return sent


_handshake.CookieJar.jar.clear()
problems = []

# sanity: the well-behaved cases the property describes really hold
connect("login.shop.example", ["ok=1; Domain=shop.example"])
if connect("www.shop.example") != ["Cookie: ok=1"]:
    problems.append("baseline: Domain=shop.example cookie not sent to www.shop.example")
if connect("evil.org") != [] or connect("evil.org.") != []:
    problems.append("baseline: Domain=shop.example cookie sent to evil.org")
connect("login.shop.example", ["nodomain=1"])
if any("nodomain" in l for l in connect("login.shop.example")):
    problems.append("baseline: cookie without Domain was kept")

# the counterexample: "Domain=." - after removing the leading dot nothing is left,
# i.e. the response names no domain (RFC 6265 5.2.3: empty domain => ignore attribute)
_handshake.CookieJar.jar.clear()
connect("login.shop.example", ["sid=SECRET; Domain=."])
print("jar after 'sid=SECRET; Domain=.':", dict(_handshake.CookieJar.jar))

for target in ("evil.org.", "other.net.", "localhost."):
    sent = connect(target)
    print(f"handshake to {target!r:14} sends {sent}")
    if sent:
        problems.append(
            f"cookie set with 'Domain=.' was replayed to unrelated host {target!r}: {sent}"
        )

if problems:
    print("\nPROPERTY VIOLATED:")
    for p in problems:
        print(" -", p)
    sys.exit(1)
print("ok: the cookie with the empty domain was not replayed to unrelated hosts")
sys.exit(0)
