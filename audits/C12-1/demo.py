#!/venv/bin/python
"""
C12 counterexample 1: a send that fails after a PARTIAL write (socket timeout while
the peer is not reading) leaves a truncated frame on the wire, the connection stays
"connected", and the next sender (another thread that was waiting for the send lock)
gets its frame written right behind the truncated one.  The wire then carries
    <first 200-odd KB of frame A> <whole frame B>
i.e. interleaved pieces instead of whole frames; sender B is told that everything
went fine, but the server can never decode B's message (it is swallowed as payload
of the truncated frame A).

Exit 1 = violation demonstrated, exit 0 = every send that returned normally arrived
as one intact frame (which is what the property promises).
"""
import socket
import struct
import sys
import threading
import time

sys.path.insert(0, "/tmp/wt/C12")
import websocket  # noqa: E402

print("websocket imported from", websocket.__file__)


def parse_frames(buf):
    """Server-side parser for client (masked) frames. Returns (frames, leftover)."""
    frames = []
    pos = 0
    while True:
        if len(buf) - pos < 2:
            break
        b1, b2 = buf[pos], buf[pos + 1]
        ln = b2 & 0x7F
        hdr = 2
        if ln == 126:
            if len(buf) - pos < 4:
                break
            ln = struct.unpack("!H", buf[pos + 2:pos + 4])[0]
            hdr = 4
        elif ln == 127:
            if len(buf) - pos < 10:
                break
            ln = struct.unpack("!Q", buf[pos + 2:pos + 10])[0]
            hdr = 10
        masked = b2 >> 7
        if masked:
            hdr += 4
        if len(buf) - pos < hdr + ln:
            break
        payload = buf[pos + hdr:pos + hdr + ln]
        if masked:
            key = buf[pos + hdr - 4:pos + hdr]
            payload = bytes(c ^ key[i % 4] for i, c in enumerate(payload))
        frames.append((b1 & 0x0F, payload))
        pos += hdr + ln
    return frames, buf[pos:]


def main():
    cli, srv = socket.socketpair()
    ws = websocket.WebSocket()  # default: enable_multithread=True
    ws.sock = cli
    ws.connected = True
    ws.settimeout(0.5)

    BIG = b"A" * (4 << 20)  # much larger than the socket buffers
    SMALL = "hello from B"

    wire = bytearray()
    start_drain = threading.Event()

    def server():
        start_drain.wait(10)
        while True:
            chunk = srv.recv(1 << 16)
            if not chunk:
                return
            wire.extend(chunk)

    outcome = {}
    a_in_send = threading.Event()

    def sender_a():
        a_in_send.set()
        try:
            ws.send_binary(BIG)
            outcome["A"] = "ok"
        except Exception as e:  # noqa: BLE001
            outcome["A"] = f"{type(e).__name__}: {e}"
        finally:
            # the peer starts reading again only after A's send call has ended
            start_drain.set()

    def sender_b():
        a_in_send.wait(5)
        time.sleep(0.1)  # A now owns the send lock and is blocked on the full buffer
        try:
            ws.send(SMALL)
            outcome["B"] = "ok"
        except Exception as e:  # noqa: BLE001
            outcome["B"] = f"{type(e).__name__}: {e}"

    ts = [threading.Thread(target=f, daemon=True) for f in (server, sender_a, sender_b)]
    for t in ts:
        t.start()
    ts[1].join(15)
    ts[2].join(15)
    connected_after = ws.connected
    try:
        cli.shutdown(socket.SHUT_WR)
    except OSError:
        pass
    ts[0].join(15)

    frames, leftover = parse_frames(bytes(wire))
    print("sender A (4 MiB binary):", outcome.get("A"))
    print("sender B (%r):" % SMALL, outcome.get("B"))
    print("ws.connected after A's failure:", connected_after)
    print("bytes on the wire:", len(wire))
    print("complete frames the server can decode:", [(op, len(p)) for op, p in frames])
    print("undecodable tail:", len(leftover), "bytes")

    expected = []
    if outcome.get("A") == "ok":
        expected.append((2, BIG))
    if outcome.get("B") == "ok":
        expected.append((1, SMALL.encode()))

    if sorted(frames) == sorted(expected):
        print("OK: every send that returned normally arrived as exactly one intact frame")
        return 0

    print()
    print("VIOLATION: the sends that returned normally were", [(op, len(p)) for op, p in expected])
    print("           but the server decodes", [(op, len(p)) for op, p in frames])
    if outcome.get("B") == "ok" and (1, SMALL.encode()) not in frames:
        idx = bytes(wire).rfind(b"\x81")
        print("           frame B was written %d bytes into the (truncated) frame A: the wire is" % len(wire[:idx]))
        print("           <partial frame A><frame B>, B's bytes are taken for payload of A.")
    return 1


if __name__ == "__main__":
    sys.exit(main())
