#!/bin/sh
# import_seeded.sh <ID> <A|B|N> <k> : confirm a sub-agent's change in a scratch worktree, then keep it under /verif/seeded/<ID>-<k>/
# (N: property-preserving change, kept under /verif/seeded_benign/<ID>-<k>/)
ID=$1; W=$2; K=$3
SRC=/tmp/wt7out/$ID/$W
WT=/tmp/wtv-$ID-$W
rm -rf $WT; git -C /repo worktree prune; git -C /repo worktree add -q --detach $WT HEAD || exit 3
trap 'git -C /repo worktree remove --force '$WT' 2>/dev/null' EXIT
cd $WT
if [ "$W" != N ]; then
  PYTHONPATH=$WT timeout 120 /venv/bin/python $SRC/demo.py > /tmp/imp_$$.0 2>&1; D0=$?
fi
git apply $SRC/patch.diff || { echo "PATCH DOES NOT APPLY"; exit 3; }
T=$(/venv/bin/python -m pytest -q -p no:cacheprovider websocket/tests 2>&1 | tail -1)
if [ "$W" = N ]; then
  DST=/verif/seeded_benign/$ID-$K; mkdir -p $DST; cp $SRC/patch.diff $SRC/notes.md $DST/
  python3 - "$ID" "$T" "$DST" <<'PY'
import json,sys
json.dump({"property":sys.argv[1],"kind":"property-preserving rework","origin":"independent sub-agent that saw only the property text","confirmed":{"patch_applies":True,"baseline_suite_with_patch":sys.argv[2]}},open(sys.argv[3]+"/meta.json","w"),indent=1)
PY
  echo "N stored: $T"; exit 0
fi
PYTHONPATH=$WT timeout 120 /venv/bin/python $SRC/demo.py > /tmp/imp_$$.1 2>&1; D1=$?
echo "tests: $T | demo clean exit=$D0 | demo patched exit=$D1"; tail -3 /tmp/imp_$$.1
case "$T" in *"38 passed"*) ;; *) echo "REJECT: suite"; exit 4;; esac
[ $D0 -eq 0 ] && [ $D1 -ne 0 ] || { echo "REJECT: demo"; exit 4; }
DST=/verif/seeded/$ID-$K; mkdir -p $DST; cp $SRC/patch.diff $SRC/demo.py $SRC/notes.md $DST/
python3 - "$ID" "$T" "$DST" "$D1" <<'PY'
import json,sys
notes=open(sys.argv[3]+"/notes.md").read()
json.dump({"property":sys.argv[1],"origin":"independent sub-agent that saw only the property text (round 7)","needs_to_manifest":notes[:1800],
 "confirmed":{"demo_on_unmodified_tree_exit":0,"patch_applies":True,"baseline_suite_with_patch":sys.argv[2],"demo_with_patch_exit":int(sys.argv[4]),
 "how":"git apply in a scratch worktree under /tmp, pytest websocket/tests, demo.py with PYTHONPATH at the worktree, worktree removed"}},open(sys.argv[3]+"/meta.json","w"),indent=1)
PY
rm -f /tmp/imp_$$.*
echo "stored $DST"
