"""C03 - delivery is independent of transport segmentation and survives receive timeouts.

Differential oracle: for a server byte stream B (101 response || frames), the observation sequence
(returned values, non-timeout exceptions) and the frames the client wrote must be identical for
every link plan (chunk boundaries, per-read caps, k receive timeouts before a chunk) and the plan
'everything in one chunk'.  After every timeout the object must still be connected and hold the same
open transport."""
import random

from .. import rfc6455 as R
from ..harness import S, Result, InvalidScenario, frames_from
from ..recvdrv import run_recv
from ..runner import derive_seed

ID = "C03"
LEVEL = "fault_enumeration"
RULE = ("scenario = (legal server frame stream, receive API, stream end, link plan); link plan = chunk "
        "boundaries at arbitrary stream offsets incl. inside the handshake head, per-recv read caps, k "
        "receive timeouts (gap = k*T + T/4) before chosen chunks.  Exhaustive sub-spaces: all 2^n chunk "
        "partitions of catalogue streams of n<=12 (quick) / n<=16 (thorough) bytes; every single timeout "
        "position x multiplicity 1..3 (and all position pairs) of those streams under the all-single-bytes "
        "and the one-chunk partition.  Seeded beyond that (streams up to ~400 bytes).  non-trivial = at least "
        "one chunk boundary, read cap or timeout actually took effect; distinct = distinct abstract "
        "signature (api, end, frame kinds, class of every cut/timeout position: header byte 1 / extended "
        "length / mask key / payload / frame boundary / handshake head, caps used)")
ASSUMPTIONS = ["SimSocket/Link semantics model a blocking Linux TCP socket with a timeout",
               "virtual time: processing takes zero time, so a gap of k*T+T/4 yields exactly k timeouts"]
EXPECT_PROBES = {"quick": ("cut_in_header", "cut_in_extlen", "cut_in_mask", "cut_in_payload",
                           "frames_in_hs_segment", "cut_in_handshake", "timeout_in_header",
                           "timeout_in_extlen", "timeout_in_mask", "timeout_in_payload", "read_cap"),
                 "thorough": ("cut_in_header", "cut_in_extlen", "cut_in_mask", "cut_in_payload",
                              "frames_in_hs_segment", "cut_in_handshake", "timeout_in_header",
                              "timeout_in_extlen", "timeout_in_mask", "timeout_in_payload", "read_cap")}
APIS = ("recv", "recv_data_ctrl", "recv_frame")
T = 2 * S


def _f(op, payload=b"", fin=1, key=None, form=None):
    d = {"fin": fin, "op": op, "hex": payload.hex()}
    if key:
        d["key"] = key.hex()
    if form:
        d["form"] = form
    return d


# catalogue of short streams whose partitions are enumerated completely
CATALOGUE = [
    [_f(1, b"hi"), _f(9), _f(2, b"\x00"), _f(8)],  # 4+2+3+2 = 11
    [_f(1, b"a", fin=0), _f(9, b"p"), _f(0, b"b", fin=1)],  # 3+3+3 = 9
    [_f(2, b"xy", key=b"\x01\x02\x03\x04"), _f(10, b"")],  # 8+2 = 10
    [_f(1, b"abc", form=16), _f(8, b"\x03\xe8")],  # 7+4 = 11
    [_f(9, b"12"), _f(9, b""), _f(1, b"")],  # 4+2+2 = 8
    [_f(2, b"", fin=0), _f(0, b"", fin=0), _f(0, b"zz", fin=1), _f(10, b"q")],  # 2+2+4+3 = 11
    [_f(2, b"q", form=64)],  # 11
    [_f(1, b"\xc3\xa9", fin=0), _f(0, b"!", fin=1), _f(8, b"\x03\xe8ok")],  # 4+3+6 = 13 (thorough)
    [_f(1, b"x", key=b"\xff\x00\xff\x00", form=16), _f(9, b"k", key=b"abcd")],  # 9+7 = 16 (thorough)
    [_f(2, b"0123456789"), _f(9, b"pp")],  # 12+4 = 16 (thorough)
]


def stream_len(spec):
    return len(frames_from(spec)[0])


def _limit(tier):
    return 12 if tier == "quick" else 16


def plan(tier, seed):
    items = []
    lim = _limit(tier)
    for i, spec in enumerate(CATALOGUE):
        n = stream_len(spec)
        if n > lim:
            continue
        total = 1 << n
        block = 2048
        for api in APIS:
            for lo in range(0, total, block):
                items.append({"kind": "exh_part", "stream": i, "api": api, "lo": lo, "hi": min(total, lo + block),
                              "exhaustive": f"all 2^{n} chunk partitions of catalogue stream {i} ({n} bytes)"})
        items.append({"kind": "exh_gap", "stream": i,
                      "exhaustive": f"every timeout position x multiplicity 1..3 and all position pairs, stream {i}"})
    nrand = 24000 if tier == "quick" else 1600000
    per = 500 if tier == "quick" else 2500
    for s in range(0, nrand, per):
        items.append({"kind": "rand", "start": s, "count": per})
    return items


def expand(item, seed):
    kind = item["kind"]
    if kind == "exh_part":
        spec = CATALOGUE[item["stream"]]
        n = stream_len(spec)
        for mask in range(item["lo"], item["hi"]):
            cuts = [p for p in range(n) if mask >> p & 1]
            yield {"frames": spec, "api": item["api"], "end": "eof", "timeout": T, "cuts": cuts, "gaps": {},
                   "read_caps": [], "seed": 1}
    elif kind == "exh_gap":
        spec = CATALOGUE[item["stream"]]
        n = stream_len(spec)
        for api in APIS:
            for cuts in ([], list(range(n))):
                for p in range(n + 1):
                    for k in (1, 2, 3):
                        yield {"frames": spec, "api": api, "end": "eof", "timeout": T, "cuts": cuts,
                               "gaps": {str(p): k}, "read_caps": [], "seed": 1}
                if api == "recv_data_ctrl":
                    for p in range(n + 1):
                        yield {"frames": spec, "api": api, "end": "eof", "timeout": T, "cuts": cuts, "gaps": {str(p): 2},
                               "read_caps": [], "seed": 1, "nonblocking": True}
                for p in range(n + 1):
                    for q in range(p + 1, n + 1):
                        yield {"frames": spec, "api": api, "end": "eof", "timeout": T, "cuts": cuts,
                               "gaps": {str(p): 1, str(q): 1}, "read_caps": [], "seed": 1}
    else:
        for i in range(item["start"], item["start"] + item["count"]):
            yield gen(random.Random(derive_seed(seed, ID, i)))


def _payload(rng, text, big_ok=True):
    r = rng.random()
    if r < 0.15:
        n = 0
    elif r < 0.8:
        n = rng.randrange(1, 9)
    elif r < 0.93 or not big_ok:
        n = rng.randrange(9, 60)
    else:
        n = rng.choice((125, 126, 127, 130, 200))
    if text:
        return bytes(rng.choice(b"abcdefghij XYZ09") for _ in range(n))
    return bytes(rng.randrange(256) for _ in range(n))


def gen_frames(rng, max_items=7, allow_close=True, masked_p=0.1):
    spec = []
    nitems = rng.randrange(1, max_items + 1)

    def mk(op, payload, fin=1):
        key = bytes(rng.randrange(256) for _ in range(4)) if rng.random() < masked_p else None
        form = None
        if rng.random() < 0.08 and op in (0, 1, 2):
            form = 16 if len(payload) <= 125 else 64
        return _f(op, payload, fin, key, form)

    def ctrl():
        op = rng.choice((9, 9, 10))
        return mk(op, _payload(rng, False, False)[:rng.randrange(0, 12)])

    for _ in range(nitems):
        r = rng.random()
        if r < 0.3:
            spec.append(mk(1, _payload(rng, True)))
        elif r < 0.5:
            spec.append(mk(2, _payload(rng, False)))
        elif r < 0.75:
            op = rng.choice((1, 2))
            nfrag = rng.randrange(2, 5)
            for j in range(nfrag):
                spec.append(mk(op if j == 0 else 0, _payload(rng, op == 1, False), 1 if j == nfrag - 1 else 0))
                if j < nfrag - 1 and rng.random() < 0.4:
                    spec.append(ctrl())
        else:
            spec.append(ctrl())
    if allow_close and rng.random() < 0.4:
        body = rng.choice((b"", b"\x03\xe8", b"\x03\xe9bye", b"\x0f\xa0" + b"x" * rng.randrange(0, 20)))
        spec.append(_f(8, body))
    return spec


def gen_cuts(rng, n, hs=True):
    """cut positions relative to the frame stream start (0 = right behind the handshake head)."""
    style = rng.random()
    cuts = set()
    if style < 0.2:
        cuts = set(range(n))  # single bytes
    elif style < 0.5:
        for _ in range(rng.randrange(1, 6)):
            cuts.add(rng.randrange(0, max(1, n)))
    elif style < 0.8:
        p = 0
        while p < n:
            cuts.add(p)
            p += rng.choice((1, 1, 2, 3, 5, 8, 13))
    else:
        p = rng.randrange(0, max(1, n))
        for q in range(p, min(n, p + rng.randrange(1, 12))):
            cuts.add(q)
    if hs and rng.random() < 0.3:
        for _ in range(rng.randrange(1, 4)):
            cuts.add(-rng.randrange(1, 120))
    if rng.random() < 0.25:
        cuts.discard(0)  # frame bytes ride in the handshake's own segment
    return sorted(cuts)


def gen(rng):
    spec = gen_frames(rng)
    n = stream_len(spec)
    api = rng.choice(APIS + ("recv_data", "recv_data_frame_ctrl"))
    use_timeout = rng.random() < 0.85
    end = rng.choice(("eof", "eof", "reset", "silence")) if use_timeout else rng.choice(("eof", "reset"))
    cuts = gen_cuts(rng, n)
    gaps = {}
    if use_timeout and rng.random() < 0.7:
        cand = [c for c in cuts if c >= 0] + [n]
        for _ in range(rng.randrange(1, 4)):
            gaps[str(rng.choice(cand))] = rng.randrange(1, 4)
    caps = []
    if rng.random() < 0.4:
        caps = [rng.choice((1, 1, 2, 3, 7, 0)) for _ in range(rng.randrange(1, 12))]
    sc = {"frames": spec, "api": api, "end": end, "timeout": T if use_timeout else None, "cuts": cuts,
          "gaps": gaps, "read_caps": caps, "read_caps_cyclic": rng.random() < 0.5, "seed": rng.randrange(1 << 30)}
    if use_timeout and end != "reset" and rng.random() < 0.12:
        sc["nonblocking"] = True  # zero-timeout socket polled every T: 'would block' takes the place of the timeout
    if rng.random() < 0.12:
        sc["no_multithread"] = True  # WebSocket(enable_multithread=False): the no-op lock stand-in
    if rng.random() < 0.1:
        sc["logtrace"] = True  # enableTrace(True)
    return sc


_base_cache = {}


def _require_legal(frames):
    """C03 streams are legal server traffic: the question is segmentation, not validation."""
    m = R.ReceiverModel()
    for i, f in enumerate(frames):
        if m.dead:
            raise InvalidScenario("frames after close")
        for a in m.feed(f):
            if a[0] in ("protocol_error", "payload_error", "unspec"):
                raise InvalidScenario("illegal stream")


def _classify(frames, pos):
    """class of stream offset pos (0-based, a cut 'before byte pos')."""
    if pos < 0:
        return "handshake"
    for f in frames:
        if pos == f.start:
            return "boundary"
        if f.start < pos < f.end:
            rel = pos - f.start
            if rel == 1:
                return "header"
            ext = {7: 0, 16: 2, 64: 8}[f.form]
            if rel < 2 + ext:
                return "extlen"
            if rel == 2 + ext:
                return "payload_start" if not f.masked else "mask"
            if f.masked and rel < 2 + ext + 4:
                return "mask"
            return "payload"
    return "end"


def run(sc, choices=None):
    res = Result()
    try:
        stream, frames = frames_from(sc["frames"])
        api = sc["api"]
        cfg = {"api": api, "timeout": sc.get("timeout"), "end": sc.get("end", "eof"),
               "cuts": list(sc.get("cuts", ())), "gaps": dict(sc.get("gaps", {})),
               "read_caps": list(sc.get("read_caps", ())), "read_caps_cyclic": sc.get("read_caps_cyclic", False),
               "max_calls": len(frames) + 8, "nonblocking": bool(sc.get("nonblocking")),
               "no_multithread": bool(sc.get("no_multithread")), "logtrace": bool(sc.get("logtrace"))}
        n = len(stream)
        for c in cfg["cuts"]:
            if not isinstance(c, int) or c > n:
                raise InvalidScenario("cut")
        for p in cfg["gaps"]:
            if int(p) > n:
                raise InvalidScenario("gap position")
    except (KeyError, TypeError, ValueError) as e:
        raise InvalidScenario(str(e))
    _require_legal(frames)
    if sc.get("nonblocking") and cfg["end"] == "reset":
        # a polling client may find the reset already delivered when it gets round to writing its reply: whether the
        # reply still goes out then depends on timing by the nature of TCP, not on segmentation
        raise InvalidScenario("polling client with a reset at the end")
    if cfg["timeout"] is not None and cfg["timeout"] < 1024:
        raise InvalidScenario("timeout too small")
    seed = int(sc.get("seed", 1))
    bkey = (stream, api, cfg["timeout"], cfg["end"], seed, cfg["nonblocking"], cfg["no_multithread"], cfg["logtrace"])
    base = _base_cache.get(bkey)
    if base is None:
        bcfg = dict(cfg, cuts=[], gaps={}, read_caps=[])
        b = run_recv(seed, stream, bcfg)
        base = (b["obs"], [(op, pl) for op, pl, _ in b["wrote_events"]], b["peer"].undecoded_tail())
        if len(_base_cache) > 5000:
            _base_cache.clear()
        _base_cache[bkey] = base
    a = run_recv(seed, stream, cfg, res)
    ctx = api
    if base[0] and base[0][0][0] == "connect_exc":
        # the response is a correct upgrade and arrives in one piece: a connect() that fails in the plain run as well would
        # make every comparison below vacuous
        res.violate("valid_handshake_refused", ctx, f"connect() failed although the response is a correct upgrade in one segment: {base[0][0]}")
    if a["obs"] != base[0]:
        i = 0
        while i < min(len(a["obs"]), len(base[0])) and a["obs"][i] == base[0][i]:
            i += 1
        res.violate("segmentation_changes_observation", ctx,
                    f"observation #{i}: one-chunk run {base[0][i] if i < len(base[0]) else 'END'} vs this plan "
                    f"{a['obs'][i] if i < len(a['obs']) else 'END'}")
    wrote = [(op, pl) for op, pl, _ in a["wrote_events"]]
    if wrote != base[1] or a["peer"].undecoded_tail() != base[2]:
        res.violate("segmentation_changes_replies", ctx,
                    f"client frames one-chunk {[(o, p.hex()[:16]) for o, p in base[1]][:6]} vs this plan "
                    f"{[(o, p.hex()[:16]) for o, p in wrote][:6]}")
    if a["bad_after_timeout"]:
        res.violate("unusable_after_timeout", ctx,
                    f"after timeout #{a['bad_after_timeout'][0]} the object was not connected / had dropped its transport")
    # ---- signature and probes
    classes = []
    for c in cfg["cuts"]:
        cl = _classify(frames, c)
        classes.append(cl)
        if c == 0:
            res.probes["cut_at_hs_end"] = 1
        res.probes["cut_in_" + cl] = res.probes.get("cut_in_" + cl, 0) + 1
    if 0 not in cfg["cuts"] and n:
        res.probes["frames_in_hs_segment"] = 1
    gcl = []
    for p, k in cfg["gaps"].items():
        if int(k):
            cl = _classify(frames, int(p))
            gcl.append((cl, int(k)))
            res.probes["timeout_in_" + cl] = res.probes.get("timeout_in_" + cl, 0) + 1
    res.probes["timeouts_observed"] = a["timeouts"]
    res.nontrivial = bool(cfg["cuts"] or cfg["gaps"] or cfg["read_caps"])
    res.sig = repr((api, cfg["end"], [f.brief() for f in frames], sorted(classes), sorted(gcl),
                    bool(cfg["read_caps"]), len(cfg["cuts"]), cfg["nonblocking"]))
    if cfg["nonblocking"]:
        res.probes["nonblocking_socket"] = 1
    return res


def sample_view(sc, r):
    return {"api": sc["api"], "end": sc.get("end"), "frames": [[f["fin"], f["op"], len(f["hex"]) // 2] for f in sc["frames"]],
            "cuts": sc.get("cuts"), "timeouts_before_offset": sc.get("gaps"), "read_caps": sc.get("read_caps"), "nonblocking": sc.get("nonblocking"),
            "timeouts_observed": r.probes.get("timeouts_observed")}


# round 7 summary for the evidence file
RULE = RULE + '  Round 7: 10 % of the seeded scenarios with enableTrace on; the one-segment baseline itself must connect (clause valid_handshake_refused), so that a change that breaks every run alike cannot compare equal.'
