#!/venv/bin/python
"""
C14 counterexample 3: the server ends the connection with a close frame
(1001, "going away") and then resets the TCP connection; the client has already
*received and parsed* that close frame, but on_close gets (None, None).

Server: handshake, sends CLOSE(1001, "going away"), then hangs up without waiting for
the client's echo (close() with SO_LINGER 0 / with unread data => RST).

The interesting moment is when the reset reaches the client after it has read the
close frame and before it has written the echo.  Two variants are run:

  A (deterministic): the application supplies get_mask_key (public API, it is called
     while the echo frame is being formatted, i.e. after the close frame has been
     read and before anything is written).  The hook tells the server "hang up now"
     and waits 0.2 s.  Nothing inside the library is patched.
  B (natural race, informational + counted): the server simply does
     sendall(close frame); close()  while the client's "hello" is still unread in its
     receive buffer.  On loopback the client loses the close code in ~95% of the runs.

Expected by the property: on_close(1001, "going away") - that frame is how the server
ended the connection and the client has seen it.

Observed: on_close(None, None) plus on_error(ConnectionResetError/BrokenPipeError):
WebSocket.recv_data_frame() reads the close frame, then send_close() (the echo)
raises, the exception replaces the frame and teardown() runs without the close frame.

exit 1 = violation demonstrated, exit 0 = library behaves as the property says.
"""
import base64
import hashlib
import os
import socket
import struct
import sys
import threading
import time

sys.path.insert(0, os.path.dirname(os.path.dirname(os.path.dirname(os.path.abspath(__file__)))))
import websocket  # noqa: E402

print("websocket imported from", websocket.__file__)
import logging  # noqa: E402

logging.getLogger("websocket").setLevel(logging.CRITICAL)

GUID = b"258EAFA5-E914-47DA-95CA-C5AB0DC85B11"
NATURAL_RUNS = 3


def server_handshake(conn):
    buf = b""
    while b"\r\n\r\n" not in buf:
        d = conn.recv(4096)
        if not d:
            raise EOFError
        buf += d
    key = [l.split(b":", 1)[1].strip() for l in buf.split(b"\r\n") if l.lower().startswith(b"sec-websocket-key:")][0]
    acc = base64.b64encode(hashlib.sha1(key + GUID).digest())
    conn.sendall(
        b"HTTP/1.1 101 Switching Protocols\r\nUpgrade: websocket\r\nConnection: Upgrade\r\n"
        b"Sec-WebSocket-Accept: " + acc + b"\r\n\r\n"
    )


def frame(op, payload=b""):
    assert len(payload) < 126
    return bytes([0x80 | op, len(payload)]) + payload


CLOSE_FRAME = frame(8, struct.pack("!H", 1001) + b"going away")

ls = socket.socket()
ls.setsockopt(socket.SOL_SOCKET, socket.SO_REUSEADDR, 1)
ls.bind(("127.0.0.1", 0))
ls.listen(5)
port = ls.getsockname()[1]

close_frame_sent = threading.Event()
hang_up_now = threading.Event()


def server():
    # variant A
    c, _a = ls.accept()
    try:
        server_handshake(c)
        time.sleep(0.3)
        c.sendall(CLOSE_FRAME)
        close_frame_sent.set()
        hang_up_now.wait(5)
        c.setsockopt(socket.SOL_SOCKET, socket.SO_LINGER, struct.pack("ii", 1, 0))
    except Exception as e:  # noqa
        print("server exception", repr(e))
    c.close()
    # variant B
    for _ in range(NATURAL_RUNS):
        c, _a = ls.accept()
        try:
            server_handshake(c)
            time.sleep(0.3)  # the client's "hello" stays unread
            c.sendall(CLOSE_FRAME)
        except Exception as e:  # noqa
            print("server exception", repr(e))
        c.close()


threading.Thread(target=server, daemon=True).start()


def mask_key_hook(n):
    # called by the library while it formats an outgoing frame
    if close_frame_sent.is_set() and not hang_up_now.is_set():
        # we are formatting the echo of the server's close frame: the close frame has
        # been read.  Let the reset arrive now, before the echo is written.
        hang_up_now.set()
        time.sleep(0.2)
    return os.urandom(n)


def one_run(get_mask_key):
    events = []

    def on_open(ws):
        events.append(("on_open",))
        ws.send("hello")

    app = websocket.WebSocketApp(
        f"ws://127.0.0.1:{port}/",
        on_open=on_open,
        on_message=lambda ws, m: events.append(("on_message", m)),
        on_error=lambda ws, e: events.append(("on_error", repr(e))),
        on_close=lambda ws, c, r: events.append(("on_close", c, r)),
        get_mask_key=get_mask_key,
    )
    result = []

    def runner():
        try:
            result.append(app.run_forever())
        except BaseException as e:  # noqa
            result.append(("raised", repr(e)))

    rt = threading.Thread(target=runner, daemon=True)
    rt.start()
    rt.join(8)
    return events, result, rt.is_alive()


problems = []


def judge(name, events, result, alive, close_frame_was_read):
    print("%s: callbacks: %r  run_forever: %r" % (name, events, result))
    if alive:
        problems.append("%s: run_forever did not return" % name)
        return
    closes = [e for e in events if e[0] == "on_close"]
    if len(closes) != 1 or events[-1][0] != "on_close":
        problems.append("%s: on_close not exactly once / not last: %r" % (name, events))
    elif close_frame_was_read and closes[0][1:] != (1001, "going away"):
        problems.append(
            "%s: the server ended the connection with CLOSE(1001, 'going away') and the client had read that frame, "
            "but on_close received %r (errors reported: %r)"
            % (name, closes[0][1:], [e for e in events if e[0] == "on_error"])
        )


ev, res, alive = one_run(mask_key_hook)
# hang_up_now is only set from inside the formatting of the echo => the close frame had been read
judge("variant A (reset between reading the close frame and writing the echo)", ev, res, alive, hang_up_now.is_set())

lost = 0
for k in range(NATURAL_RUNS):
    ev, res, alive = one_run(None)
    print("variant B run %d: callbacks: %r  run_forever: %r" % (k, ev, res))
    closes = [e for e in ev if e[0] == "on_close"]
    if closes and closes[0][1:] != (1001, "going away"):
        lost += 1
print("variant B: close code lost in %d of %d natural runs (informational)" % (lost, NATURAL_RUNS))

if problems:
    print("VIOLATION (C14: on_close receives the status code and reason of the server's close frame):")
    for p in problems:
        print(" -", p)
    sys.stdout.flush()
    os._exit(1)
print("OK: on_close received (1001, 'going away')")
sys.stdout.flush()
os._exit(0)
