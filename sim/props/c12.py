"""C12 - each send puts one intact frame on the wire under partial writes and threads; concurrent
receivers each get whole messages, every message exactly once.

Part A (faults): arbitrary short-write patterns, one thread.
Part B (schedules): 2..4 sender threads on one connection, short writes on.
Part C (schedules): 2..4 receiver threads on one connection.
Schedules are sampled (seeded: cooperative, probabilistic line pre-emption, PCT depth 1..3) plus a
depth-1 sweep that forces one pre-emption at every traced line of one thread of a reference run; this
is not an enumeration up to a pre-emption bound (that would be model checking)."""
import random

from .. import rfc6455 as R
from .. import seams
from ..harness import S, HOST, Result, InvalidScenario, std_world, exc_name
from ..kernel import SimAbort, HarnessError
from ..runner import derive_seed

ID = "C12"
LEVEL = "exploration"
RULE = ("part A: every composition of the frame length as short-write pattern for frames of 6..12 bytes (enumerated), "
        "seeded patterns for frames up to 70 kB incl. one byte at a time, and patterns that end in 'nothing for longer than the "
        "socket timeout' (the write times out inside the frame, a later send succeeds); part B: 2..4 threads each sending 1..4 uniquely "
        "tagged text/binary/ping messages on one connection with short writes; part C: 2..4 threads calling recv() (or recv_data(), or each thread its own of recv()/recv_data()/recv_data_frame()) while "
        "the peer sends unique messages (some fragmented, pings interleaved) and then ends the stream.  Schedules: seeded "
        "policies coop / prob(p in 1/512,1/64,1/8) / pct(d=1..3) over line-level pre-emption points inside "
        "websocket/*.py, plus the depth-1 sweep at(k) = one forced switch at the k-th traced line of thread 1 for every k "
        "of a reference run.  Oracles: wire bytes decode into whole frames whose multiset equals the frames sent, each "
        "thread's frames in program order; union of received messages equals messages sent, each intact exactly once, "
        "pongs = pings, every receiver ends with the connection-closed exception.  non-trivial = a short write happened "
        "or >=1 context switch; distinct = distinct digest of the (thread, step) switch trace, or distinct accept pattern")
ASSUMPTIONS = ["default thread-safe configuration (enable_multithread=True)",
               "pre-emption granularity is the source line (bytecode-level pre-emption crashes CPython 3.12 when the trace function blocks; see DESIGN.md section 9)"]
EXPECT_PROBES = {"quick": ("lock_contended", "short_write"), "thorough": ("lock_contended", "short_write")}
POLICIES = [{"kind": "coop", "p_call": 0.3}, {"kind": "prob", "p_line": 1 / 512, "p_call": 0.2},
            {"kind": "prob", "p_line": 1 / 64, "p_call": 0.2}, {"kind": "prob", "p_line": 1 / 8, "p_call": 0.3},
            {"kind": "pct", "d": 1, "len": 1500}, {"kind": "pct", "d": 2, "len": 1500}, {"kind": "pct", "d": 3, "len": 1500}]


def compositions(n):
    """all compositions of n as lists of positive parts (2^(n-1) of them)."""
    for mask in range(1 << (n - 1)):
        parts = []
        cur = 1
        for i in range(n - 1):
            if mask >> i & 1:
                parts.append(cur)
                cur = 1
            else:
                cur += 1
        parts.append(cur)
        yield parts


def plan(tier, seed):
    items = []
    for n in range(0, 7):  # payload bytes -> frame 6+n bytes
        total = 1 << (6 + n - 1)
        for lo in range(0, total, 512):
            items.append({"kind": "A_exh", "plen": n, "lo": lo, "hi": min(total, lo + 512),
                          "exhaustive": "part A: every short-write composition of frames of 6..12 bytes"})
    nA = 1500 if tier == "quick" else 60000
    nB = 6000 if tier == "quick" else 300000
    nC = 6000 if tier == "quick" else 300000
    for s in range(0, nA, 250):
        items.append({"kind": "A_rand", "start": s, "count": 250})
    per = 250 if tier == "quick" else 1500
    for s in range(0, nB, per):
        items.append({"kind": "B_rand", "start": s, "count": per})
    for s in range(0, nC, per):
        items.append({"kind": "C_rand", "start": s, "count": per})
    nsweep = 4 if tier == "quick" else 40
    sweeps = []
    for i in range(nsweep):
        for tid in (1, 2):
            for ch in range(24):
                sweeps.append({"kind": "sweep", "part": "C" if i % 2 == 0 else "B", "index": i, "tid": tid, "chunk": ch,
                               "exhaustive": "depth-1 sweep: one forced pre-emption at every traced line (first 6000) of thread 1 / thread 2 of a reference run"})
    items = sweeps + items
    return items


def expand(item, seed):
    k = item["kind"]
    if k == "A_exh":
        n = item["plen"]
        payload = bytes(range(0x41, 0x41 + n))
        for idx, parts in enumerate(compositions(6 + n)):
            if item["lo"] <= idx < item["hi"]:
                yield {"part": "A", "msgs": [{"kind": "bytes", "len": n, "pseed": 1}], "accept": parts, "seed": 1,
                       "fixed_hex": payload.hex()}
    elif k == "A_rand":
        for i in range(item["start"], item["start"] + item["count"]):
            rng_ = random.Random(derive_seed(seed, ID + "A", i))
            yield genA_stall(rng_) if i % 5 == 4 else genA(rng_)
    elif k == "B_rand":
        for i in range(item["start"], item["start"] + item["count"]):
            yield genB(random.Random(derive_seed(seed, ID + "B", i)))
    elif k == "C_rand":
        for i in range(item["start"], item["start"] + item["count"]):
            yield genC(random.Random(derive_seed(seed, ID + "C", i)))
    else:
        rng = random.Random(derive_seed(seed, ID + "S", item["index"]))
        base = genC(rng) if item["part"] == "C" else genB(rng)
        base["threads"] = 2
        base.pop("send_stall", None)
        base.pop("timeout", None)
        base.pop("frag_gap", None)
        base.pop("api", None)
        if item["part"] == "B":
            base["sends"] = [[dict(o, len=min(int(o["len"]), 130)) for o in ops[:2]] for ops in base["sends"][:2]]
        else:
            base["msgs"] = base["msgs"][:4]
            base["sizes"] = [7, 50]
        base["policy"] = {"kind": "coop", "p_call": 0.0}
        ref = run(dict(base, policy={"kind": "at", "tid": -1, "k": -1}))
        tid = item["tid"]
        lines = ref.info.get("lines", {}).get(tid, 0)
        # 24 chunks of 250 lines; a longer reference run is swept over its first 6000 lines only (the label says so)
        for kk in range(1 + item["chunk"] * 250, min(lines, (item["chunk"] + 1) * 250) + 1):
            yield dict(base, policy={"kind": "at", "tid": tid, "k": kk})


def genA(rng):
    r = rng.random()
    n = rng.randrange(0, 30) if r < 0.4 else rng.choice((125, 126, 127, 1000, 4096)) if r < 0.8 else rng.choice((65535, 65536, 70000))
    style = rng.random()
    if style < 0.3:
        accept, cyc = [1], True
    elif style < 0.6:
        accept, cyc = [rng.choice((1, 2, 3, 5, 7, 13, 100, 1000)) for _ in range(rng.randrange(1, 8))], True
    else:
        accept, cyc = [rng.randrange(1, max(2, n + 10)) for _ in range(rng.randrange(1, 12))], False
    if n > 5000 and accept == [1]:
        accept = [1, 1, 1, 2, 4096]
    return {"part": "A", "msgs": [{"kind": rng.choice(("bytes", "text")), "len": n, "pseed": rng.randrange(1 << 20)}
                                  for _ in range(rng.randrange(1, 4))],
            "accept": accept, "accept_cyclic": cyc, "seed": rng.randrange(1 << 30)}


def _policy(rng):
    # bytecode-level pre-emption (frame.f_trace_opcodes) was tried and withdrawn: CPython 3.12 crashes (SIGSEGV) or loses
    # the hand-over when a trace function blocks inside an 'opcode' event, so the granularity stays at the source line
    return dict(rng.choice(POLICIES))


def genA_stall(rng):
    sc = genA(rng)
    if len(sc["msgs"]) < 2:
        sc["msgs"] = sc["msgs"] + [{"kind": "bytes", "len": rng.choice((0, 5, 200)), "pseed": 7}]
    n0 = int(sc["msgs"][0]["len"])
    sc["stall_after"] = rng.choice((0, 1, 2, 3, 5, 6, max(0, n0 // 2), n0 + 1))
    return sc


def genB(rng):
    nthreads = rng.randrange(2, 5)
    sends = []
    for t in range(nthreads):
        ops = []
        for j in range(rng.randrange(1, 5)):
            kind = rng.choice(("text", "text", "bytes", "ping"))
            ln = rng.choice((0, 1, 5, 20, 100, 130, 700, 3000)) if kind != "ping" else rng.choice((0, 3, 40, 100))
            ops.append({"kind": kind, "len": ln})
        sends.append(ops)
    accept = [rng.choice((1, 2, 3, 7, 50, 200, 1000)) for _ in range(rng.randrange(1, 8))]
    sc = {"part": "B", "threads": nthreads, "sends": sends, "accept": accept, "accept_cyclic": True,
          "policy": _policy(rng), "seed": rng.randrange(1 << 30)}
    if rng.random() < 0.3:
        # the transport stalls in the middle of a frame: 'would block', unwritable for a while (shorter or longer than
        # the socket timeout of 5 s), then writable again
        sc["send_stall"] = {str(rng.randrange(2, 14)): rng.choice((S // 2, 3 * S, 8 * S)) for _ in range(rng.randrange(1, 3))}
    return sc


def genC(rng):
    nthreads = rng.randrange(2, 5)
    msgs = []
    for i in range(rng.randrange(2, 9)):
        r = rng.random()
        if r < 0.2:
            msgs.append({"kind": "ping", "len": rng.choice((0, 2, 9))})
        else:
            msgs.append({"kind": rng.choice(("text", "bytes")), "len": rng.choice((0, 1, 4, 20, 150)),
                         "frags": rng.choice((1, 1, 2, 3, 4)), "ping_inside": rng.random() < 0.3})
    sizes = [rng.choice((1, 2, 3, 5, 11, 40, 500)) for _ in range(rng.randrange(1, 5))]
    sc = {"part": "C", "threads": nthreads, "msgs": msgs, "sizes": sizes, "spread": rng.choice((0, 0, 1, 64, 4096)),
          "policy": _policy(rng), "seed": rng.randrange(1 << 30)}
    if rng.random() < 0.2:
        # the frame-level call from several threads: unfragmented messages only (reassembly across threads is not promised
        # for recv_frame), every frame must reach exactly one caller intact
        sc["api"] = "recv_frame"
        for m in sc["msgs"]:
            m["frags"] = 1
            m["ping_inside"] = False
    elif rng.random() < 0.3:
        # the other message-level receive calls: recv_data() from every thread, or each thread its own of recv() /
        # recv_data() / recv_data_frame()
        sc["api"] = rng.choice(("recv_data", "mixed"))
    elif rng.random() < 0.25:
        # finite socket timeout; fragments of one message trickle in at gaps shorter than the timeout, the whole message
        # taking longer than the timeout: the receiver holding the message is busy, the others wait
        sc["timeout"] = 2 * S
        sc["frag_gap"] = rng.choice((S, S + S // 2))
        for m in sc["msgs"]:
            if m["kind"] != "ping":
                m["frags"] = rng.choice((3, 4, 5))
    return sc


def gen(rng):
    return rng.choice((genA, genB, genC))(rng)


def _payload(kind, n, tag):
    body = (tag + "." * n)[: max(n, len(tag))] if n >= len(tag) else tag
    return body


def run(sc, choices=None):
    part = sc.get("part")
    if part == "A":
        return runA(sc)
    if part == "B":
        return runB(sc, choices)
    if part == "C":
        return runC(sc, choices)
    raise InvalidScenario("part")


# ------------------------------------------------------------------------------------ part A
def runA(sc):
    res = Result()
    try:
        accept = [int(x) for x in sc["accept"]]
        if not accept or any(a < 1 for a in accept):
            raise InvalidScenario("accept")
        msgs = list(sc["msgs"])
        if not 1 <= len(msgs) <= 6:
            raise InvalidScenario("msgs")
        pls = []
        for m in msgs:
            n = int(m["len"])
            if not 0 <= n <= 200000 or m["kind"] not in ("bytes", "text"):
                raise InvalidScenario("msg")
            if sc.get("fixed_hex") is not None:
                pls.append(bytes.fromhex(sc["fixed_hex"]))
            else:
                r = random.Random(int(m.get("pseed", 0)) + n)
                pls.append(bytes(r.choice(b"abcdefgh") for _ in range(n)) if m["kind"] == "text" else r.randbytes(n))
    except (KeyError, TypeError, ValueError) as e:
        raise InvalidScenario(str(e))
    sockcfg = {"accept": accept, "accept_cyclic": bool(sc.get("accept_cyclic"))}
    stall_after = sc.get("stall_after")
    if stall_after is not None:
        # a pattern of short writes whose last piece is "nothing for longer than the socket timeout": the transport takes
        # k bytes of the first frame and then no more until the write has timed out; afterwards it takes bytes again
        if not 0 <= int(stall_after) <= 200000 or len(msgs) < 2:
            raise InvalidScenario("stall_after")
        sockcfg["send_fail"] = {"after_bytes": int(stall_after), "errno": "TIMEOUT"}
    w, peers = std_world(seed=int(sc.get("seed", 1)), sock=sockcfg, step_cap=3_000_000)
    with w:
        ws = w.ws
        c = ws.create_connection(f"ws://{HOST}/", timeout=5)
        conn = w.net.conns[0]
        timed_out = None
        for mi, (m, pl) in enumerate(zip(msgs, pls)):
            before = len(conn.rx)
            try:
                if m["kind"] == "text":
                    ret = c.send(pl.decode("ascii"))
                else:
                    ret = c.send_binary(pl)
            except SimAbort:
                raise
            except ws.WebSocketConnectionClosedException as e:
                if timed_out is not None:
                    break  # the connection was given up after the write that timed out: nothing further reaches the wire
                res.violate("send_raised_under_short_writes", "one_thread", f"{exc_name(e)}: {e}")
                break
            except BaseException as e:  # noqa
                if stall_after is not None and timed_out is None and isinstance(e, ws.WebSocketTimeoutException):
                    timed_out = (mi, len(conn.rx) - before)
                    res.probes["write_timed_out_midframe"] = 1
                    continue
                res.violate("send_raised_under_short_writes", "one_thread", f"{exc_name(e)}: {e}")
                break
            if timed_out is not None:
                # a later call succeeded on the same connection: what the server can decode behind the handshake must be
                # whole frames, the cut-off frame of the failed call cannot be one of them
                stream_ = peers[0].ws_bytes()
                frs, pos = R.decode_all(stream_)
                good = [f_ for f_ in frs if f_.payload in pls]
                if timed_out[1] > 0 and (pos != len(stream_) or len(good) != len(frs) or not any(f_.payload == pl for f_ in frs)):
                    res.violate("partial_frame_left_on_wire", "send_timeout_midframe",
                                f"send #{timed_out[0]} timed out after {timed_out[1]} of its frame's bytes had been written; send #{mi} then "
                                f"returned normally, but the server cannot find its frame: {len(frs)} frames decoded "
                                f"({len(good)} of them sent by the caller), {len(stream_) - pos} undecodable trailing bytes")
                break
            got = bytes(conn.rx[before:])
            f = R.decode_one(got)
            if f is None or f.end != len(got) or f.payload != pl or f.opcode != (1 if m["kind"] == "text" else 2) or not f.fin:
                res.violate("send_not_exactly_one_frame", "one_thread",
                            f"payload {len(pl)} bytes, pattern {accept[:12]}: wrote {len(got)} bytes, "
                            f"{'no complete frame' if f is None else 'frame end %d payload ok=%s' % (f.end, f.payload == pl)}")
                break
            if ret != len(got):
                res.violate("send_not_exactly_one_frame", "one_thread", f"returned {ret}, frame has {len(got)} bytes")
                break
    res.absorb(w)
    res.nontrivial = bool(w.net.counters.get("short_write"))
    res.sig = repr(("A", [len(p) for p in pls], tuple(accept[:16]), bool(sc.get("accept_cyclic")), stall_after))
    return res


# ------------------------------------------------------------------------------------ part B
def runB(sc, choices):
    res = Result()
    try:
        nthreads = int(sc["threads"])
        sends = [list(x) for x in sc["sends"]][:nthreads]
        if not 1 <= nthreads <= 4 or len(sends) != nthreads:
            raise InvalidScenario("threads")
        for ops in sends:
            if len(ops) > 6:
                raise InvalidScenario("ops")
            for o in ops:
                if o["kind"] not in ("text", "bytes", "ping") or not 0 <= int(o["len"]) <= 20000:
                    raise InvalidScenario("op")
                if o["kind"] == "ping" and int(o["len"]) > 110:
                    raise InvalidScenario("ping len")
        accept = [max(1, int(x)) for x in sc.get("accept", [])]
        policy = dict(sc.get("policy") or {"kind": "coop"})
    except (KeyError, TypeError, ValueError) as e:
        raise InvalidScenario(str(e))
    sockcfg = {"accept": accept, "accept_cyclic": True} if accept else {}
    if sc.get("send_stall"):
        sockcfg["send_stall"] = {int(a): int(b) for a, b in sc["send_stall"].items()}
    w, peers = std_world(seed=int(sc.get("seed", 1)), sock=sockcfg, policy=policy, choices=choices, step_cap=600_000)
    expected = []  # per thread: list of (opcode, payload)
    for t, ops in enumerate(sends):
        lst = []
        for j, o in enumerate(ops):
            tag = f"T{t}M{j}|"
            body = (tag + "x" * int(o["len"])).encode()
            lst.append(({"text": 1, "bytes": 2, "ping": 9}[o["kind"]], body))
        expected.append(lst)
    errors = []
    rets = []
    with w:
        ws = w.ws
        c = ws.create_connection(f"ws://{HOST}/", timeout=5)

        def worker(t):
            for op, body in expected[t]:
                try:
                    if op == 1:
                        r = c.send(body.decode())
                    elif op == 2:
                        r = c.send_binary(body)
                    else:
                        c.ping(body)
                        r = None
                    rets.append((t, r, len(body)))
                except SimAbort:
                    raise
                except BaseException as e:  # noqa
                    errors.append((t, exc_name(e), str(e)[:100]))
                    return

        ths = [seams.SimThread(target=worker, args=(t,), name=f"sender{t}") for t in range(nthreads)]
        try:
            if policy.get("kind") in ("prob", "pct", "at"):
                w.k.start_tracing()
            for th in ths:
                th.start()
            for th in ths:
                th.join()
        except SimAbort:
            pass
        finally:
            if w.k.tracing:
                w.k.stop_tracing()
        peer = peers[0]
        frames = peer.client_frames()
        tail = peer.undecoded_tail()
        lines = {t.tid: t.lines for t in w.k.threads}
    res.absorb(w)
    res.info["lines"] = lines
    ctx = f"senders"
    if w.k.abort_reason not in (None, "end"):
        res.violate("senders_do_not_finish", ctx, f"run aborted: {w.k.abort_reason}")
    elif errors:
        res.violate("send_raised_under_concurrency", ctx, str(errors[:3]))
    else:
        want = sorted((op, body) for lst in expected for op, body in lst)
        got = sorted((f.opcode, f.payload) for f in frames)
        if tail or got != want:
            bad = next((f for f in frames if (f.opcode, f.payload) not in want), None)
            res.violate("frames_interleaved_on_wire", ctx,
                        f"{len(frames)} frames decoded, {len(want)} sent, {len(tail)} undecodable trailing bytes; "
                        f"first foreign frame: {None if bad is None else (bad.opcode, bad.payload[:24])}")
        else:
            for t, lst in enumerate(expected):
                seq = [(f.opcode, f.payload) for f in frames if f.payload.startswith(f"T{t}M".encode())]
                if seq != lst:
                    res.violate("per_thread_order_broken", ctx, f"thread {t}: wire order {[p[1][:6] for p in seq]}")
                    break
            for f in frames:
                if not f.masked or f.rsv or not f.fin or not f.minimal():
                    res.violate("frames_interleaved_on_wire", ctx, f"malformed frame on wire {f.brief()}")
                    break
    res.nontrivial = bool(w.k.switches) or bool(w.net.counters.get("short_write"))
    res.sig = repr(("B", nthreads, res.sched))
    res.probes["part_B"] = 1
    return res


# ------------------------------------------------------------------------------------ part C
def runC(sc, choices):
    res = Result()
    try:
        nthreads = int(sc["threads"])
        if not 1 <= nthreads <= 4:
            raise InvalidScenario("threads")
        msgs = list(sc["msgs"])
        if not 1 <= len(msgs) <= 12:
            raise InvalidScenario("msgs")
        policy = dict(sc.get("policy") or {"kind": "coop"})
        spread = int(sc.get("spread", 0))
        frag_gap = int(sc.get("frag_gap", 0))
        tmo = sc.get("timeout")
        if frag_gap and (tmo is None or frag_gap >= int(tmo)):
            raise InvalidScenario("fragment gap must stay below the socket timeout")
        stream = bytearray()
        expected = []
        pings = []
        script = []
        t = 0
        for i, m in enumerate(msgs):
            tag = f"M{i}|".encode()
            part = bytearray()
            if m["kind"] == "ping":
                pl = tag + b"p" * int(m["len"])
                if len(pl) > 125:
                    raise InvalidScenario("ping len")
                pings.append(pl)
                part += R.encode_frame(1, 9, pl)
            elif m["kind"] in ("text", "bytes"):
                body = tag + (b"y" * int(m["len"]))
                op = 1 if m["kind"] == "text" else 2
                k = max(1, min(int(m.get("frags", 1)), 6))
                cuts = [len(body) * j // k for j in range(1, k)]
                prev = 0
                pieces = []
                for cpos in cuts + [len(body)]:
                    pieces.append(body[prev:cpos])
                    prev = cpos
                for j, pc in enumerate(pieces):
                    part += R.encode_frame(1 if j == len(pieces) - 1 else 0, op if j == 0 else 0, pc)
                    if m.get("ping_inside") and j == 0 and len(pieces) > 1:
                        pl = tag + b"in"
                        pings.append(pl)
                        part += R.encode_frame(1, 9, pl)
                    if frag_gap and j < len(pieces) - 1:
                        script.append({"t": t, "hex": bytes(part).hex()})
                        part = bytearray()
                        t += frag_gap
                expected.append(body.decode() if op == 1 else body)
            else:
                raise InvalidScenario("kind")
            script.append({"t": t, "hex": bytes(part).hex()})
            t += spread
        script.append({"t": t, "end": "eof"})
        sizes = [max(1, int(x)) for x in sc.get("sizes", [])]
        api = sc.get("api") or "recv"
        if api not in ("recv", "recv_frame", "recv_data", "mixed"):
            raise InvalidScenario("api")
    except (KeyError, TypeError, ValueError) as e:
        raise InvalidScenario(str(e))
    peer_cfg = {"script": script, "on_ping": {"mode": "never"}, "on_close": {"mode": "never"}, "eof_on_client_eof": False}
    w, peers = std_world(seed=int(sc.get("seed", 1)), peer_cfg=peer_cfg, link={"sizes": sizes} if sizes else {},
                         policy=policy, choices=choices, step_cap=600_000)
    got = [[] for _ in range(nthreads)]
    ends = [None] * nthreads
    with w:
        ws = w.ws
        c = ws.WebSocket()
        if tmo is not None:
            c.settimeout(int(tmo) / S)
        c.connect(f"ws://{HOST}/")
        ntimeouts = [0]
        ctrl_seen = []

        use_frames = api == "recv_frame"

        def worker(t):
            while True:
                try:
                    if use_frames:
                        f_ = c.recv_frame()
                        if f_.opcode in (9, 10):
                            ctrl_seen.append((f_.opcode, bytes(f_.data)))
                            continue
                        m = bytes(f_.data).decode() if f_.opcode == 1 else bytes(f_.data)
                    elif api == "recv_data" or (api == "mixed" and t % 3 == 1):
                        op_, d_ = c.recv_data()
                        m = bytes(d_).decode() if op_ == 1 else bytes(d_)
                    elif api == "mixed" and t % 3 == 2:
                        op_, f_ = c.recv_data_frame()
                        m = bytes(f_.data).decode() if op_ == 1 else bytes(f_.data)
                    else:
                        m = c.recv()
                    got[t].append(m)
                    if len(got[t]) > 50:
                        ends[t] = "runaway"
                        return
                except SimAbort:
                    raise
                except ws.WebSocketConnectionClosedException:
                    ends[t] = "closed"
                    return
                except ws.WebSocketTimeoutException:
                    ntimeouts[0] += 1
                    if ntimeouts[0] > 400:
                        ends[t] = "too many timeouts"
                        return
                except BaseException as e:  # noqa
                    ends[t] = f"{exc_name(e)}: {str(e)[:80]}"
                    return

        ths = [seams.SimThread(target=worker, args=(t,), name=f"receiver{t}") for t in range(nthreads)]
        try:
            if policy.get("kind") in ("prob", "pct", "at"):
                w.k.start_tracing()
            for th in ths:
                th.start()
            for th in ths:
                th.join()
        except SimAbort:
            pass
        finally:
            if w.k.tracing:
                w.k.stop_tracing()
        peer = peers[0]
        frames = peer.client_frames()
        tail = peer.undecoded_tail()
        lines = {t.tid: t.lines for t in w.k.threads}
    res.absorb(w)
    res.info["lines"] = lines
    ctx = "receivers"
    if w.k.abort_reason not in (None, "end"):
        res.violate("receivers_do_not_finish", ctx, f"run aborted: {w.k.abort_reason}; ends={ends}")
    else:
        allgot = [m for g in got for m in g]
        key = lambda m: (0, m) if isinstance(m, str) else (1, m.decode("latin-1"))
        if sorted(allgot, key=key) != sorted(expected, key=key):
            missing = [m[:10] for m in expected if allgot.count(m) == 0]
            dup = [m[:10] for m in set(map(lambda x: x if isinstance(x, str) else bytes(x), allgot)) if allgot.count(m) > 1]
            foreign = [m[:16] for m in allgot if m not in expected]
            res.violate("message_not_delivered_intact_exactly_once", ctx,
                        f"sent {len(expected)}, received {len(allgot)}; missing {missing[:4]} duplicated {dup[:4]} corrupted/foreign {foreign[:4]}")
        bad_ends = [e for e in ends if e != "closed"]
        if bad_ends and not res.violations:
            res.violate("receiver_did_not_end_with_connection_closed", ctx, f"thread endings {ends}")
        pongs = [f.payload for f in frames if f.opcode == 10]
        others = [f.brief() for f in frames if f.opcode != 10]
        if sc.get("api") == "recv_frame":
            # recv_frame never replies; the pings themselves must have been handed out intact
            if sorted(p_ for o_, p_ in ctrl_seen if o_ == 9) != sorted(pings) and not res.violations:
                res.violate("message_not_delivered_intact_exactly_once", ctx, f"ping frames handed to callers {ctrl_seen[:4]} vs sent {pings[:4]}")
        elif (pongs != pings or others or tail) and not res.violations:
            res.violate("pongs_differ_from_pings", ctx, f"pings {len(pings)} pongs {len(pongs)} other frames {others[:3]} tail {len(tail)}")
    res.nontrivial = bool(w.k.switches)
    res.sig = repr(("C", nthreads, sc.get("api") or "recv", res.sched))
    res.probes["part_C"] = 1
    return res


def sample_view(sc, r):
    v = {k: sc.get(k) for k in ("part", "threads", "policy", "accept", "sizes", "spread", "send_stall", "timeout", "frag_gap", "api")}
    if sc.get("part") == "B":
        v["sends"] = sc.get("sends")
    else:
        v["msgs"] = sc.get("msgs")
    v["context_switches"] = r.switches
    return v
