#!/venv/bin/python
"""C11 audit 1: sslopt {"check_hostname": None} (a key that is present but not set)
silently switches the host name check off.

A loopback TLS server presents a certificate that chains to the CA the client
trusts (ca_certs) but was issued for "other.example".  The client asks for
wss://localhost:<port>/.

  * no check_hostname key       -> must be rejected (default)      [control]
  * check_hostname False        -> accepted (the documented switch) [control]
  * check_hostname None         -> the caller did NOT ask for the check to be
                                   dropped (None means "not set" for every
                                   other sslopt key); the property says only
                                   "check_hostname False" relaxes it.

exit 0: None is rejected like the default.  exit 1: the upgrade request
reached the wrong-name server.
"""
import base64, hashlib, os, shutil, socket, ssl, subprocess, sys, tempfile, threading, time, warnings

sys.path.insert(0, "/tmp/wt/C11")
import websocket

print("websocket from", websocket.__file__)
warnings.simplefilter("ignore")

if not shutil.which("openssl"):
    print("openssl command line tool missing: cannot build the throw-away PKI")
    sys.exit(2)

D = tempfile.mkdtemp(prefix="c11-audit1-")


def run(*a):
    subprocess.run(a, check=True, cwd=D, stdout=subprocess.DEVNULL, stderr=subprocess.DEVNULL)


run("openssl", "req", "-x509", "-newkey", "rsa:2048", "-nodes", "-keyout", "ca.key", "-out", "ca.pem",
    "-days", "2", "-subj", "/CN=C11 audit CA",
    "-addext", "basicConstraints=critical,CA:TRUE", "-addext", "keyUsage=critical,keyCertSign,cRLSign")
run("openssl", "req", "-newkey", "rsa:2048", "-nodes", "-keyout", "srv.key", "-out", "srv.csr",
    "-subj", "/CN=other.example")
with open(os.path.join(D, "srv.ext"), "w") as f:
    f.write("subjectAltName=DNS:other.example\nbasicConstraints=CA:FALSE\n")
run("openssl", "x509", "-req", "-in", "srv.csr", "-CA", "ca.pem", "-CAkey", "ca.key", "-CAcreateserial",
    "-out", "srv.pem", "-days", "2", "-extfile", "srv.ext")
CA = os.path.join(D, "ca.pem")

GUID = b"258EAFA5-E914-47DA-95CA-C5AB0DC85B11"
events = []  # what the wrong-name server saw

ls = socket.socket()
ls.bind(("127.0.0.1", 0))
ls.listen(10)
PORT = ls.getsockname()[1]
sctx = ssl.SSLContext(ssl.PROTOCOL_TLS_SERVER)
sctx.load_cert_chain(os.path.join(D, "srv.pem"), os.path.join(D, "srv.key"))


def serve(c):
    c.settimeout(5)
    try:
        s = sctx.wrap_socket(c, server_side=True)
    except Exception as e:
        events.append("tls handshake refused by client: " + repr(e)[:70])
        c.close()
        return
    try:
        buf = b""
        while b"\r\n\r\n" not in buf:
            d = s.recv(4096)
            if not d:
                break
            buf += d
        if buf:
            events.append("UPGRADE REQUEST RECEIVED: %r" % buf[:30])
        key = [l.split(b":", 1)[1].strip() for l in buf.split(b"\r\n") if l.lower().startswith(b"sec-websocket-key:")]
        if key:
            acc = base64.b64encode(hashlib.sha1(key[0] + GUID).digest())
            s.sendall(b"HTTP/1.1 101 Switching Protocols\r\nUpgrade: websocket\r\nConnection: Upgrade\r\n"
                      b"Sec-WebSocket-Accept: " + acc + b"\r\n\r\n")
            try:
                s.recv(100)
            except Exception:
                pass
    except Exception as e:
        events.append("server error " + repr(e)[:70])
    finally:
        try:
            s.close()
        except Exception:
            pass


def loop():
    while True:
        try:
            c, _ = ls.accept()
        except OSError:
            return
        threading.Thread(target=serve, args=(c,), daemon=True).start()


threading.Thread(target=loop, daemon=True).start()
os.environ.pop("WEBSOCKET_CLIENT_CA_BUNDLE", None)


def attempt(sslopt):
    del events[:]
    ws = websocket.WebSocket(sslopt=sslopt)
    try:
        ws.connect("wss://localhost:%d/" % PORT, timeout=5)
        ws.close()
        res = True
    except Exception as e:
        res = False
        print("      client raised", repr(e)[:100])
    time.sleep(0.2)
    return res, list(events)


failures = []
ABSENT = object()
for label, val, must_reject in (
    ("key absent (default)", ABSENT, True),
    ("check_hostname=False (documented)", False, False),
    ("check_hostname=None", None, True),
):
    opt = {"ca_certs": CA}
    if val is not ABSENT:
        opt["check_hostname"] = val
    print("--", label, "| server certificate is for other.example, URL host is localhost")
    ok, ev = attempt(opt)
    print("      connected:", ok, "| server saw:", ev)
    if must_reject and ok:
        failures.append(label)
    if not must_reject and not ok:
        print("      (control unexpectedly rejected)")

shutil.rmtree(D, ignore_errors=True)
if failures:
    print("\nVIOLATION: host name verification was dropped without 'check_hostname': False for:", failures)
    print("The certificate was issued for other.example; the WebSocket upgrade request for localhost was sent to it.")
    sys.exit(1)
print("\nOK: only check_hostname False relaxes the host name check")
sys.exit(0)
