#!/venv/bin/python
"""C01 counterexample 2: the mask key source is remembered by the *frame object*, so a frame that is
sent a second time is masked with the key source of the first transmission, not with the key source
configured for the connection it is now written to (operating-system randomness by default).

Property: "the key on the wire is the one drawn once per frame from the configured key source
(operating-system randomness by default)".
"""
import os
import sys

sys.path.insert(0, os.path.abspath(os.path.join(os.path.dirname(__file__), "..", "..")))
import websocket
from websocket import ABNF, WebSocket

print("websocket imported from", websocket.__file__)


class FakeSock:
    def __init__(self):
        self.out = bytearray()

    def gettimeout(self):
        return None

    def settimeout(self, t):
        pass

    def send(self, data):
        self.out += data
        return len(data)

    def close(self):
        pass


def wire_key_and_payload(buf):
    """single small masked frame -> (key, payload)"""
    assert buf[1] & 0x80 and (buf[1] & 0x7F) < 126
    ln = buf[1] & 0x7F
    key = bytes(buf[2:6])
    assert len(buf) == 6 + ln
    return key, bytes(b ^ key[i % 4] for i, b in enumerate(buf[6:]))


# --- instrument the operating-system randomness so that we can tell whether it was consulted ---------
os_draws = []
_real_urandom = os.urandom


def spy_urandom(n):
    v = _real_urandom(n)
    os_draws.append(v)
    return v


os.urandom = spy_urandom  # ABNF.__init__ does `self.get_mask_key = os.urandom` at construction time

FIXED = b"\x00\x00\x00\x00"  # a test/debug key source: with it the payload travels in clear


def fixed_key(n):
    return FIXED


def new_ws(**kw):
    ws = WebSocket(**kw)
    ws.sock = FakeSock()
    ws.connected = True
    return ws


failures = []

# ---------------------------------------------------------------------------------------------------
# Scenario A: one frame, two connections (e.g. a fan-out of the same message).
#   ws_a is configured with a custom key source, ws_b is left at the default.
# ---------------------------------------------------------------------------------------------------
ws_a = new_ws(get_mask_key=fixed_key)
ws_b = new_ws()  # default: OS randomness
frame = ABNF.create_frame(b"secret-token", ABNF.OPCODE_BINARY)

ws_a.send_frame(frame)
key_a, pay_a = wire_key_and_payload(ws_a.sock.out)
assert key_a == FIXED and pay_a == b"secret-token"

os_draws.clear()
ws_b.send_frame(frame)
key_b, pay_b = wire_key_and_payload(ws_b.sock.out)
print(f"A: ws_b (default key source) wrote key {key_b.hex()}, OS randomness consulted {len(os_draws)} time(s)")
if not (len(os_draws) == 1 and os_draws[0] == key_b):
    failures.append(
        f"scenario A: connection with the DEFAULT key source wrote key {key_b.hex()} "
        f"(taken from the other connection's custom source); os.urandom was consulted {len(os_draws)} times; "
        f"raw wire bytes: {bytes(ws_b.sock.out)!r}"
    )

# ---------------------------------------------------------------------------------------------------
# Scenario B: one connection, the key source is switched back to the default with set_mask_key(None)
#   (None is the constructor default and means "OS randomness"), then the same frame object is re-sent.
# ---------------------------------------------------------------------------------------------------
ws = new_ws()
ws.set_mask_key(fixed_key)
frame = ABNF.create_frame("hello", ABNF.OPCODE_TEXT)
ws.send_frame(frame)
ws.set_mask_key(None)  # back to the default source
del ws.sock.out[:]
os_draws.clear()
ws.send_frame(frame)  # e.g. a retransmission of the same frame object
key2, _ = wire_key_and_payload(ws.sock.out)
print(f"B: after set_mask_key(None) the re-sent frame has key {key2.hex()}, OS randomness consulted {len(os_draws)} time(s)")
if not (len(os_draws) == 1 and os_draws[0] == key2):
    failures.append(
        f"scenario B: after set_mask_key(None) the frame still used the old custom source "
        f"(key {key2.hex()}, os.urandom consulted {len(os_draws)} times)"
    )

# control: a *fresh* frame on the same connection does use the OS source
del ws.sock.out[:]
os_draws.clear()
ws.send_frame(ABNF.create_frame("hello", ABNF.OPCODE_TEXT))
key3, _ = wire_key_and_payload(ws.sock.out)
assert len(os_draws) == 1 and os_draws[0] == key3, "control failed"

if failures:
    print()
    print("PROPERTY VIOLATED: key on the wire does not come from the configured key source:")
    for f in failures:
        print("  -", f)
    sys.exit(1)
print("keys always came from the configured source")
sys.exit(0)
