#!/venv/bin/python
"""
C15 counterexample 3 (built-in loop, a second application thread that sends).

The server hangs (stops reading and answering).  A producer thread of the
application keeps calling app.send(); once the socket buffers are full it blocks
inside sock.send() holding the WebSocket's send lock, and the ping thread (which
has just stamped last_ping_tm) blocks on the same lock.  The loop detects the ping
timeout and reconnects, but

 * _stop_ping_thread() gives up after join(3) and the old ping thread is forgotten;
   _start_ping_thread() then installs a NEW self.stop_ping event, and because
   _send_ping re-reads self.stop_ping / self.sock on every iteration the old thread
   is "revived": as soon as it gets the lock it goes on pinging the NEW connection
   for ever -> two ping threads, pings at twice the configured rate;
 * setSock(True) releases the old transport with WebSocket.shutdown(), which is only
   sock.close(): the descriptor is closed while the producer is still blocked in
   send() on it, so the kernel connection stays ESTABLISHED (the hung server sees
   no end of stream) while the new connection is already up -> two live transports.

Exit status 1 = property violated (current behaviour), 0 = behaves as stated.
"""
import base64
import hashlib
import os
import select
import socket
import struct
import sys
import threading
import time

sys.path.insert(0, os.environ.get("C15_LIB", "/tmp/wt/C15"))  # C15_LIB: only to try the demo against a patched copy
import websocket  # noqa: E402
from websocket import ABNF, WebSocketApp  # noqa: E402

print("websocket module:", websocket.__file__)
T0 = time.time()
PING_INTERVAL = 0.5
PING_TIMEOUT = 0.3
RECONNECT = 0.5


def log(*a):
    print(f"[{time.time() - T0:5.2f}]", *a, flush=True)


def established(local_port):
    """True if the kernel still has an ESTABLISHED tcp connection whose local
    (= client side) address is 127.0.0.1:local_port."""
    want = "0100007F:%04X" % local_port
    with open("/proc/net/tcp") as f:
        for line in f.readlines()[1:]:
            p = line.split()
            if p[1] == want and p[3] == "01":
                return True
    return False


# --------------------------------------------------------------------------- server
class Server:
    """Connection 0: handshake, then the server hangs: it reads nothing and answers
    nothing; at t = 9 s it resets the connection.  Later connections are healthy:
    everything is read, pings are answered and counted."""

    def __init__(self):
        self.lsock = socket.socket()
        self.lsock.setsockopt(socket.SOL_SOCKET, socket.SO_REUSEADDR, 1)
        self.lsock.bind(("127.0.0.1", 0))
        self.lsock.listen(8)
        self.port = self.lsock.getsockname()[1]
        self.accepted = []
        self.client_port = {}
        self.pings = {}
        self.stop = False
        threading.Thread(target=self.accept_loop, daemon=True).start()

    def accept_loop(self):
        while not self.stop:
            try:
                c, addr = self.lsock.accept()
            except OSError:
                return
            idx = len(self.accepted)
            self.accepted.append(time.time() - T0)
            self.client_port[idx] = addr[1]
            self.pings[idx] = []
            log(f"server: accepted connection #{idx} (client port {addr[1]})")
            threading.Thread(target=self.serve, args=(c, idx), daemon=True).start()

    @staticmethod
    def frame(opcode, payload=b""):
        return bytes([0x80 | opcode, len(payload)]) + payload

    def serve(self, c, idx):
        try:
            buf = b""
            while b"\r\n\r\n" not in buf:
                d = c.recv(4096)
                if not d:
                    return
                buf += d
            key = [
                l.split(b":", 1)[1].strip()
                for l in buf.split(b"\r\n")
                if l.lower().startswith(b"sec-websocket-key")
            ][0]
            acc = base64.b64encode(
                hashlib.sha1(key + b"258EAFA5-E914-47DA-95CA-C5AB0DC85B11").digest()
            )
            c.sendall(
                b"HTTP/1.1 101 Switching Protocols\r\nUpgrade: websocket\r\n"
                b"Connection: Upgrade\r\nSec-WebSocket-Accept: " + acc + b"\r\n\r\n"
            )
            if idx == 0:
                log("server: connection #0 hangs from now on (reads nothing, answers nothing)")
                while time.time() - T0 < 9 and not self.stop:
                    time.sleep(0.05)
                log("server: connection #0 is reset by the server now")
                c.setsockopt(socket.SOL_SOCKET, socket.SO_LINGER, struct.pack("ii", 1, 0))
                c.close()
                return
            rbuf = b""
            while not self.stop:
                r, _, _ = select.select([c], [], [], 0.05)
                if not r:
                    continue
                d = c.recv(1 << 20)
                if not d:
                    c.close()
                    return
                rbuf += d
                while len(rbuf) >= 2:
                    op = rbuf[0] & 0x0F
                    ln = rbuf[1] & 0x7F
                    hl = 2
                    if ln == 126:
                        if len(rbuf) < 4:
                            break
                        ln = struct.unpack("!H", rbuf[2:4])[0]
                        hl = 4
                    elif ln == 127:
                        if len(rbuf) < 10:
                            break
                        ln = struct.unpack("!Q", rbuf[2:10])[0]
                        hl = 10
                    if len(rbuf) < hl + 4 + ln:
                        break
                    mask = rbuf[hl : hl + 4]
                    body = rbuf[hl + 4 : hl + 4 + ln]
                    rbuf = rbuf[hl + 4 + ln :]
                    if op == 9:
                        self.pings[idx].append(time.time() - T0)
                        c.sendall(self.frame(10, bytes(b ^ mask[i % 4] for i, b in enumerate(body))))
                    elif op == 8:
                        c.sendall(self.frame(8, struct.pack("!H", 1000)))
        except OSError:
            pass


# --------------------------------------------------------------------------- scenario
server = Server()
events = []
samples = {}


def ping_threads():
    return [
        t
        for t in threading.enumerate()
        if getattr(getattr(t, "_target", None), "__func__", None) is WebSocketApp._send_ping
        and t.is_alive()
    ]


def on_open(ws):
    events.append(("open", time.time() - T0))
    log("client: on_open")


def on_reconnect(ws):
    events.append(("reconnect", time.time() - T0))
    log("client: on_reconnect")


def on_error(ws, e):
    events.append(("error", time.time() - T0, repr(e)))
    log("client: on_error", repr(e))


def on_close(ws, *a):
    events.append(("close", time.time() - T0))
    log("client: on_close", a)


app = WebSocketApp(
    f"ws://127.0.0.1:{server.port}/",
    on_open=on_open,
    on_reconnect=on_reconnect,
    on_error=on_error,
    on_close=on_close,
)


def producer():
    """The application's own traffic: a thread that uploads data.  It stops at the
    first failure (the loss of the connection is reported to it as an exception)."""
    time.sleep(0.3)
    n = 0
    try:
        while True:
            app.send(b"x" * 65536, ABNF.OPCODE_BINARY)
            n += 1
    except Exception as e:
        log(f"producer: send failed after {n} chunks: {e!r}; producer stops")


def observer():
    # wait for the reconnection, then look at the state 1.5 s later and again at the end
    while not any(e[0] == "reconnect" for e in events):
        if time.time() - T0 > 15:
            app.close()
            return
        time.sleep(0.05)
    time.sleep(1.5)
    samples["ping_threads_after_reconnect"] = len(ping_threads())
    samples["old_transport_established"] = established(server.client_port[0])
    samples["new_transport_established"] = established(server.client_port[1])
    log(
        "observer: 1.5 s after on_reconnect:",
        samples["ping_threads_after_reconnect"], "ping thread(s); old connection ESTABLISHED in the kernel:",
        samples["old_transport_established"], "; new one:", samples["new_transport_established"],
    )
    while time.time() - T0 < 14:
        time.sleep(0.05)
    now = time.time() - T0
    last = max(server.pings)
    samples["pings_last_3s"] = len([t for t in server.pings[last] if t > now - 3])
    samples["ping_threads_end"] = len(ping_threads())
    log(
        "observer: at the end:", samples["ping_threads_end"], "ping thread(s);",
        samples["pings_last_3s"], f"pings arrived on connection #{last} in the last 3 s",
    )
    app.close()


threading.Thread(target=producer, daemon=True).start()
threading.Thread(target=observer, daemon=True).start()
app.run_forever(ping_interval=PING_INTERVAL, ping_timeout=PING_TIMEOUT, reconnect=RECONNECT)
server.stop = True
server.lsock.close()

# --------------------------------------------------------------------------- verdict
print()
print("samples:", samples)
problems = []
if "pings_last_3s" not in samples:
    problems.append("the scenario did not run to its end (no reconnection?)")
else:
    if samples["ping_threads_after_reconnect"] > 1 or samples["ping_threads_end"] > 1:
        problems.append(
            f"{samples['ping_threads_after_reconnect']} ping threads alive 1.5 s after the reconnection, "
            f"{samples['ping_threads_end']} at the end (never more than one allowed)"
        )
    if samples["old_transport_established"] and samples["new_transport_established"]:
        problems.append(
            "two live transports: 1.5 s after on_reconnect the old TCP connection is still ESTABLISHED "
            "next to the new one (its descriptor was close()d under a thread blocked in send())"
        )
    expected = 3 / PING_INTERVAL
    if samples["pings_last_3s"] > expected * 1.5:
        problems.append(
            f"{samples['pings_last_3s']} pings in 3 s on the new connection, about {expected:.0f} expected: "
            "the revived old ping thread pings the new connection as well"
        )
    if sum(1 for e in events if e[0] == "close") != 1 or events[-1][0] != "close":
        problems.append("on_close did not fire exactly once, at the end")

if problems:
    print("\nPROPERTY VIOLATED:")
    for p in problems:
        print(" -", p)
    sys.exit(1)
print("\nOK: one transport and one ping thread at a time")
sys.exit(0)
