"""C19 audit 1: WebSocketApp.run_forever(http_proxy_host=..., http_proxy_port=...) never reaches the proxy.

run_forever() forwards its own default proxy_type=None to WebSocket.connect(); proxy_info() then reads
options.get("proxy_type", "http") -> None (the key is present), and rejects None as an unsupported protocol.
So an HTTP proxy given by option (exactly the documented options, proxy_type left at its default) makes the
app fail with ProxyError before any socket is opened, although the same options work with create_connection().
"""
import base64
import hashlib
import os
import socket
import sys
import threading

sys.path.insert(0, "/tmp/wt/C19")
import websocket  # noqa: E402

print("websocket from", websocket.__file__)
for k in ("http_proxy", "HTTP_PROXY", "https_proxy", "HTTPS_PROXY", "no_proxy", "NO_PROXY"):
    os.environ.pop(k, None)

GUID = "258EAFA5-E914-47DA-95CA-C5AB0DC85B11"
TARGET_HOST, TARGET_PORT = "origin.test", 8123  # never resolved by the client: only the proxy is contacted


def read_head(conn):
    data = b""
    while b"\r\n\r\n" not in data:
        chunk = conn.recv(1)
        if not chunk:
            break
        data += chunk
    return data.decode("latin-1")


class FakeProxy(threading.Thread):
    """Accepts connections; answers CONNECT with 200, then plays the origin's WebSocket handshake itself."""

    def __init__(self):
        super().__init__(daemon=True)
        self.lsock = socket.socket()
        self.lsock.bind(("127.0.0.1", 0))
        self.lsock.listen(5)
        self.port = self.lsock.getsockname()[1]
        self.connect_lines = []

    def run(self):
        while True:
            try:
                conn, _ = self.lsock.accept()
            except OSError:
                return
            threading.Thread(target=self.serve, args=(conn,), daemon=True).start()

    def serve(self, conn):
        try:
            conn.settimeout(5)
            head = read_head(conn)
            self.connect_lines.append(head.split("\r\n")[0])
            if not head.startswith("CONNECT "):
                conn.sendall(b"HTTP/1.1 400 Bad Request\r\n\r\n")
                return
            conn.sendall(b"HTTP/1.1 200 Connection established\r\n\r\n")
            head = read_head(conn)
            key = [l.split(":", 1)[1].strip() for l in head.split("\r\n") if l.lower().startswith("sec-websocket-key")][0]
            accept = base64.b64encode(hashlib.sha1((key + GUID).encode()).digest()).decode()
            conn.sendall(
                (
                    "HTTP/1.1 101 Switching Protocols\r\nUpgrade: websocket\r\nConnection: Upgrade\r\n"
                    f"Sec-WebSocket-Accept: {accept}\r\n\r\n"
                ).encode()
            )
            conn.sendall(b"\x88\x02\x03\xe8")  # close 1000
            try:
                conn.recv(64)
            except OSError:
                pass
        except Exception as e:  # pragma: no cover
            print("proxy thread error:", repr(e))
        finally:
            conn.close()


proxy = FakeProxy()
proxy.start()
url = f"ws://{TARGET_HOST}:{TARGET_PORT}/chat"

# Control: the low level API with the very same options goes through the proxy.
ws = websocket.create_connection(url, timeout=5, http_proxy_host="127.0.0.1", http_proxy_port=proxy.port)
ws.close()
print("control, create_connection(): proxy saw", proxy.connect_lines)
control_ok = proxy.connect_lines == [f"CONNECT {TARGET_HOST}:{TARGET_PORT} HTTP/1.1"]
proxy.connect_lines.clear()

events = []
app = websocket.WebSocketApp(
    url,
    on_open=lambda w: events.append(("open",)),
    on_error=lambda w, e: events.append(("error", type(e).__name__, str(e))),
    on_close=lambda w, c, r: events.append(("close", c, r)),
)
websocket.setdefaulttimeout(5)
t = threading.Thread(
    target=lambda: events.append(
        ("returned", app.run_forever(http_proxy_host="127.0.0.1", http_proxy_port=proxy.port))
    ),
    daemon=True,
)
t.start()
t.join(15)
print("WebSocketApp events:", events)
print("WebSocketApp: proxy saw", proxy.connect_lines)

if not control_ok:
    print("UNEXPECTED: control connection did not use the proxy")
    sys.exit(2)
went_through_proxy = proxy.connect_lines == [f"CONNECT {TARGET_HOST}:{TARGET_PORT} HTTP/1.1"]
opened = ("open",) in events
if went_through_proxy and opened:
    print("OK: the app connected through the HTTP proxy given by option")
    sys.exit(0)
print(
    "VIOLATION: an HTTP proxy was given by option (http_proxy_host/http_proxy_port, proxy_type left at its default) "
    "and the target is not exempt, but WebSocketApp never contacted the proxy; it failed with:",
    [e for e in events if e[0] == "error"],
)
sys.exit(1)
