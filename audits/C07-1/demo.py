#!/venv/bin/python
"""
C07 counterexample 1: a pong whose write times out is dropped / left truncated, and the
client goes on reading.

Two phases (either one failing makes the program exit 1):
  A. real TCP loopback, real back-pressure (described below): pongs get LOST;
  B. socketpair + a thin socket wrapper that scripts "short write, then timeout" inside one
     pong (what a nearly full send buffer does): a pong is left TORN and the next pong is
     written behind the fragment, so the client's byte stream stops being a frame stream.

Phase A: real handshake.  The client has a socket timeout (create_connection(...,
timeout=0.3)) and the usual receive loop

    while True:
        try: msg = ws.recv()
        except WebSocketTimeoutException: continue      # "nothing yet", keep going

The server sends a burst of numbered pings and is busy for ~1.2 s before it starts reading
the answers (small receive window).  While the server is not reading, the client's send
buffer fills up and the write of some pong times out - possibly after part of the frame has
already been written.  recv() raises WebSocketTimeoutException; the ping has been consumed
and nothing remembers the unfinished pong.  The loop calls recv() again, the library reads
the next ping and writes the next pong right behind the hole / the torn frame.

exit 1 = property violated (missing / malformed / out-of-sequence pongs),
exit 0 = the server sees exactly one well-formed pong per ping, in order.
"""
import base64
import hashlib
import socket
import struct
import sys
import threading
import time

sys.path.insert(0, "/tmp/wt/C07")
import websocket  # noqa: E402
from websocket import ABNF  # noqa: E402

print("websocket module:", websocket.__file__)

GUID = b"258EAFA5-E914-47DA-95CA-C5AB0DC85B11"
N_PINGS = 1500
SERVER_BUSY = 1.2  # seconds during which the server does not read
CLIENT_TIMEOUT = 0.3


def ping_payload(i):
    return (b"ping-%06d-" % i).ljust(125, b".")  # 125 bytes: the largest legal ping


def server_handshake(conn):
    buf = b""
    while b"\r\n\r\n" not in buf:
        chunk = conn.recv(4096)
        if not chunk:
            raise RuntimeError("client went away during the handshake")
        buf += chunk
    key = None
    for line in buf.split(b"\r\n"):
        if line.lower().startswith(b"sec-websocket-key:"):
            key = line.split(b":", 1)[1].strip()
    accept = base64.b64encode(hashlib.sha1(key + GUID).digest())
    conn.sendall(
        b"HTTP/1.1 101 Switching Protocols\r\nUpgrade: websocket\r\nConnection: Upgrade\r\n"
        b"Sec-WebSocket-Accept: " + accept + b"\r\n\r\n"
    )


def srv_frame(opcode, payload):
    assert len(payload) < 126
    return bytes([0x80 | opcode, len(payload)]) + payload


def parse_client_frames(data):
    """Strict parser for client->server frames. Returns (frames, error)."""
    out = []
    i = 0
    n = len(data)
    while i < n:
        start = i
        if n - i < 2:
            return out, f"truncated header at offset {start}"
        b1, b2 = data[i], data[i + 1]
        i += 2
        opcode = b1 & 0x0F
        if b1 & 0x70:
            return out, f"RSV bits set at offset {start} (byte {b1:#04x})"
        if opcode not in (0, 1, 2, 8, 9, 10):
            return out, f"invalid opcode {opcode} at offset {start}"
        if not (b2 & 0x80):
            return out, f"unmasked client frame at offset {start}"
        ln = b2 & 0x7F
        if opcode >= 8 and (ln > 125 or not (b1 & 0x80)):
            return out, f"malformed control frame at offset {start}"
        if ln == 126:
            ln = struct.unpack("!H", data[i : i + 2])[0]
            i += 2
        elif ln == 127:
            ln = struct.unpack("!Q", data[i : i + 8])[0]
            i += 8
        if n - i < 4 + ln:
            return out, f"truncated frame (opcode {opcode}, len {ln}) at offset {start}"
        key = data[i : i + 4]
        i += 4
        body = bytes(c ^ key[k % 4] for k, c in enumerate(data[i : i + ln]))
        i += ln
        out.append((opcode, body))
    return out, None


client_bytes = bytearray()
server_done = threading.Event()


def server(lsock):
    conn, _ = lsock.accept()
    server_handshake(conn)

    def flood():
        try:
            for i in range(N_PINGS):
                conn.sendall(srv_frame(ABNF.OPCODE_PING, ping_payload(i)))
            conn.sendall(srv_frame(ABNF.OPCODE_TEXT, b"done"))
        except OSError as e:
            print("server: writer stopped:", e)

    threading.Thread(target=flood, daemon=True).start()
    time.sleep(SERVER_BUSY)  # busy: not reading the pongs yet
    conn.settimeout(8)
    try:
        while True:
            chunk = conn.recv(65536)
            if not chunk:
                break
            client_bytes.extend(chunk)
    except (socket.timeout, OSError):
        pass
    conn.close()
    server_done.set()


def phase_a():
    """real back-pressure on a real TCP connection"""
    lsock = socket.socket()
    lsock.setsockopt(socket.SOL_SOCKET, socket.SO_REUSEADDR, 1)
    # a modest receive window on the server side (inherited by accepted sockets)
    lsock.setsockopt(socket.SOL_SOCKET, socket.SO_RCVBUF, 4096)
    lsock.bind(("127.0.0.1", 0))
    lsock.listen(1)
    port = lsock.getsockname()[1]
    threading.Thread(target=server, args=(lsock,), daemon=True).start()

    ws = websocket.create_connection(
        f"ws://127.0.0.1:{port}/",
        timeout=CLIENT_TIMEOUT,
        sockopt=[(socket.SOL_SOCKET, socket.SO_SNDBUF, 4096)],
    )
    timeouts = 0
    other = None
    deadline = time.time() + 15
    got_done = False
    while time.time() < deadline:
        try:
            msg = ws.recv()
        except websocket.WebSocketTimeoutException:
            timeouts += 1  # "no message yet" - the usual reaction is to call recv() again
            continue
        except Exception as e:  # noqa: BLE001
            other = e
            break
        if msg == "done":
            got_done = True
            break
    print(f"client: WebSocketTimeoutException raised by recv() {timeouts} time(s); got 'done': {got_done}; other error: {other!r}")
    try:
        ws.close(timeout=1)
    except Exception as e:  # noqa: BLE001
        print("client: close raised", repr(e))
    server_done.wait(10)

    frames, err = parse_client_frames(bytes(client_bytes))
    pongs = [body for op, body in frames if op == ABNF.OPCODE_PONG]
    expected = [ping_payload(i) for i in range(N_PINGS)]
    print(f"server: {len(client_bytes)} bytes from the client, {len(frames)} well-formed frames, {len(pongs)} pongs")
    bad = False
    if err:
        bad = True
        print("server: client byte stream is NOT a valid frame sequence:", err)
    if pongs != expected:
        bad = True
        for i, want in enumerate(expected):
            if i >= len(pongs) or pongs[i] != want:
                got = pongs[i][:12] if i < len(pongs) else None
                print(f"server: first divergence at pong #{i}: expected {want[:12]!r}..., got {got!r}")
                break
        seen = set(pongs)
        missing = [i for i in range(N_PINGS) if ping_payload(i) not in seen]
        print(f"server: pings never answered by a well-formed pong: {len(missing)} (first few: {missing[:8]})")
    if bad:
        print(
            "VIOLATION: every ping was read by recv() (the client reached the frames behind them), "
            "but not every ping got exactly one well-formed pong: a pong whose write timed out is "
            "abandoned (lost or left half-written) and the client keeps reading and answering later pings"
        )
        return 1
    if not timeouts:
        print("note: no write timeout occurred in this run (buffers too large?) - nothing demonstrated")
    print("OK: exactly one well-formed pong per ping, in order")
    return 0


class ScriptedSocket:
    """A real socket (one end of a socketpair) whose send() can be told to behave like a
    socket with a full send buffer at one chosen moment: one short write, then one timeout."""

    def __init__(self, real):
        self._real = real
        self.calls = None  # None = not armed

    def arm(self):
        self.calls = 0

    def send(self, data):
        if self.calls is None:
            return self._real.send(data)
        self.calls += 1
        if self.calls == 2:  # first write of the 2nd pong: only 5 bytes fit
            return self._real.send(data[:5])
        if self.calls == 3:  # the rest does not fit within the timeout
            raise socket.timeout("timed out")
        return self._real.send(data)

    def __getattr__(self, name):
        return getattr(self._real, name)


def phase_b():
    """deterministic: short write followed by a timeout in the middle of the 2nd pong"""
    a, b = socket.socketpair()
    pings = [b"one", b"two", b"three"]
    got = bytearray()
    done = threading.Event()

    def srv():
        server_handshake(b)
        for p in pings:
            b.sendall(srv_frame(ABNF.OPCODE_PING, p))
        b.sendall(srv_frame(ABNF.OPCODE_TEXT, b"done"))
        b.settimeout(5)
        try:
            while True:
                chunk = b.recv(4096)
                if not chunk:
                    break
                got.extend(chunk)
        except (socket.timeout, OSError):
            pass
        b.close()
        done.set()

    threading.Thread(target=srv, daemon=True).start()
    sock = ScriptedSocket(a)
    ws = websocket.create_connection("ws://127.0.0.1:1/", timeout=1, socket=sock)
    sock.arm()
    timeouts = 0
    msg = None
    for _ in range(5):
        try:
            msg = ws.recv()
            break
        except websocket.WebSocketTimeoutException:
            timeouts += 1
    print(f"client: recv() raised WebSocketTimeoutException {timeouts} time(s), then returned {msg!r}")
    ws.close(timeout=1)
    done.wait(6)
    frames, err = parse_client_frames(bytes(got))
    pongs = [body for op, body in frames if op == ABNF.OPCODE_PONG]
    print(f"server: parsed frames {frames}; parse error: {err}")
    if err or pongs != pings:
        print(
            f"VIOLATION: pings {pings} -> well-formed pongs {pongs}; the 2nd pong was left torn on the wire "
            "(5 of its bytes), the client read on and wrote the 3rd pong behind the fragment: "
            "from there on the client's byte stream is garbage for the server"
        )
        return 1
    print("OK: exactly one well-formed pong per ping, in order")
    return 0


def main():
    print("=== phase A: real TCP loopback, server slow to read the pongs ===")
    ra = phase_a()
    print("=== phase B: scripted short write + timeout inside one pong ===")
    rb = phase_b()
    return 1 if (ra or rb) else 0


if __name__ == "__main__":
    sys.exit(main())
