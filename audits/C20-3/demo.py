"""C20 counterexample 3: a stored cookie value is replayed DECODED (quotes removed, backslash-octal escapes turned into
raw bytes), so one received cookie can come back as several cookies, or as extra request header lines.

Exit status 1 = violation demonstrated (current behaviour), 0 = library behaves as the property says.
"""
import base64
import hashlib
import socket
import sys
import threading

sys.path.insert(0, "/tmp/wt/C20")
import websocket  # noqa: E402

print("websocket module:", websocket.__file__)

GUID = "258EAFA5-E914-47DA-95CA-C5AB0DC85B11"


def serve_once(srv, extra_headers, seen):
    """Minimal websocket server side of one handshake on a socketpair end."""
    buf = b""
    while b"\r\n\r\n" not in buf:
        chunk = srv.recv(65536)
        if not chunk:
            break
        buf += chunk
    request = buf.decode("latin-1")
    seen.append(request)
    key = ""
    for line in request.split("\r\n"):
        if line.lower().startswith("sec-websocket-key:"):
            key = line.split(":", 1)[1].strip()
    accept = base64.b64encode(hashlib.sha1((key + GUID).encode()).digest()).decode()
    lines = [
        "HTTP/1.1 101 Switching Protocols",
        "Upgrade: websocket",
        "Connection: Upgrade",
        f"Sec-WebSocket-Accept: {accept}",
    ] + list(extra_headers)
    srv.sendall(("\r\n".join(lines) + "\r\n\r\n").encode())


def handshake(url, extra_headers=()):
    """Run one real client handshake for `url` over a socketpair; return the request the client sent."""
    cli, srv = socket.socketpair()
    seen = []
    t = threading.Thread(target=serve_once, args=(srv, extra_headers, seen), daemon=True)
    t.start()
    ws = websocket.create_connection(url, socket=cli, timeout=5)
    t.join(5)
    ws.sock.close()
    srv.close()
    return seen[0]


def cookie_header(request):
    for line in request.split("\r\n"):
        if line.lower().startswith("cookie:"):
            return line.split(":", 1)[1].strip()
    return None


# One response, one Domain, two cookies whose values are RFC 2109 quoted-strings.  On the wire these are harmless
# printable ASCII lines (the backslashes below are literal characters of the header value).
handshake(
    "ws://example.com/",
    [
        'Set-Cookie: pref="x; admin=1"; Domain=example.com',
        'Set-Cookie: trk="y\\015\\012X-Injected: yes"; Domain=example.com',
    ],
)

request = handshake("ws://www.example.com/", ())
head_lines = request.split("\r\n\r\n", 1)[0].split("\r\n")
print("request sent to www.example.com:")
for line in head_lines:
    print("   ", repr(line))

def split_pairs(value):
    """Split a Cookie header value on ';' the way a server does, honouring quoted-strings (so that a library
    that replays the value in its original quoted form is judged correct)."""
    out, cur, in_q, esc = [], "", False, False
    for ch in value:
        if esc:
            esc = False
        elif ch == "\\" and in_q:
            esc = True
        elif ch == '"':
            in_q = not in_q
        elif ch == ";" and not in_q:
            out.append(cur)
            cur = ""
            continue
        cur += ch
    out.append(cur)
    return out


received_names = {"pref", "trk"}
problems = []

cookie_lines = [l for l in head_lines if l.lower().startswith("cookie:")]
if len(cookie_lines) > 1:  # none at all is fine: the library may refuse such values altogether
    problems.append("expected at most one Cookie header line, found %d" % len(cookie_lines))
for l in cookie_lines:
    names = [c.split("=", 1)[0].strip() for c in split_pairs(l.split(":", 1)[1]) if c.strip()]
    extra = [n for n in names if n not in received_names]
    if extra:
        problems.append("Cookie header names cookies that no response ever set: %r" % extra)
injected = [l for l in head_lines if l.lower().startswith("x-injected")]
if injected:
    problems.append("a stored cookie value produced an extra request header line: %r" % injected)

if not problems:
    print("OK: the Cookie header consists of exactly the received cookies (or they were refused)")
    sys.exit(0)
for p in problems:
    print("VIOLATION:", p)
sys.exit(1)
