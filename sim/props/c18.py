"""C18 - the URL alone determines target, port, resource and TLS; all resolved addresses are tried in
order; socket options and timeout are applied to every socket tried."""
import itertools
import random
import socket as _rs

from .. import rfc6455 as R
from ..harness import S, Result, InvalidScenario, exc_name
from ..kernel import SimAbort, HarnessError
from ..peers import WSPeer
from ..runner import derive_seed
from ..world import World

ID = "C18"
LEVEL = "fault_enumeration"
RULE = ("scenario = URL assembled from scheme x host form (name, upper-case name, user-info, IPv4, bracketed IPv6) x "
        "port {none,1,80,443,8080,65535} x path (empty, ;params, %xx) x query, or a malformed variant (also on an object that is connected: that connection must stay untouched); host table of "
        "1..4 addresses (mixed families) each with outcome {accept, refused, unreachable, other error}; sockopt and "
        "timeout settings.  Oracle from the simulated network's log: resolver asked for (host without brackets, "
        "explicit port or 80/443); first wire bytes are a TLS ClientHello iff wss; request target = path-or-'/' "
        "[?query]; malformed => ValueError with zero resolver/socket activity; addresses dialled in list order, a "
        "refused/unreachable entry followed by the next, OSError if all fail; every socket dialled had the configured "
        "timeout and the same option list (incl. TCP_NODELAY and every user option) before connect; failed sockets "
        "closed.  Enumerated completely: all 340 outcome patterns of length 1..4; URL grid scheme x host form x port x "
        "path x query; all malformed variants.  non-trivial = more than one address, a failing address, a non-default "
        "URL part or a malformed URL; distinct = (scheme, host form, port, path class, query class, outcome pattern, "
        "sockopt?, timeout?); a tenth of the scenarios on an object that was connected and closed before (cleanly / close frame's write failing / no reply)")
ASSUMPTIONS = ["after an 'other error' (timeout, EACCES) both aborting and continuing are accepted",
               "wss scenarios disable certificate verification (C11 covers verification)"]

HOSTFORMS = {"name": ("multi.sim.test", "multi.sim.test"), "upper": ("MULTI.Sim.Test", "multi.sim.test"),
             "userinfo": ("user:pw@multi.sim.test", "multi.sim.test"), "ipv4": ("10.5.0.1", "10.5.0.1"),
             "ipv6": ("[2001:db8:5::1]", "2001:db8:5::1")}
PORTS = (None, 1, 80, 443, 8080, 65535)
PATHS = ("", "/", "/chat", "/a/b", "/p;x", "/p;x=1/q", "/%7Euser/%20", "/a;b;c", "/p;", "/;", "/a;b/c;",
         # characters RFC 3986 allows in a path segment as they are (sub-delims, ':' and '@'): the resource is the URL's path
         "/a:b@c", "/x,y+z", "/q='(1)'*!$&", "/~user/-._", "/a=b")
QUERIES = (None, "y", "a=1&b=2", "q=%3F", "next=/lobby/7", "q=what?", "u=ws://x/y?z", "a=b:c@d", "k=v;w", "x=1+2,3", "e=%2F%3f", "s='(*)!$")
MALFORMED = ("multi.sim.test/p", "ws:/multi.sim.test", "ws:multi.sim.test", "ws:///p", "http://multi.sim.test",
             "https://multi.sim.test/", "ftp://multi.sim.test", "wsx://multi.sim.test", "://multi.sim.test", "ws://",
             "ws://:80/", "", "ws", "WS//multi.sim.test",
             # a second URL nested behind the scheme: scheme ws/wss, no "//", hence no host of its own
             "ws:wss://multi.sim.test/x", "ws:http://multi.sim.test/x", "wss:ws://multi.sim.test:81/x", "ws:foo://multi.sim.test/",
             "ws:ws://multi.sim.test/x")
OUTCOMES = ("accept", "refused", "unreachable", "hostunreach", "other")
OTHER = ("timeout", "perm")  # 'hostunreach' (EHOSTUNREACH, "no route to host") is an unreachable address like ENETUNREACH


def addr_for(i, fam):
    return f"10.5.0.{i + 1}" if fam == 4 else f"2001:db8:5::{i + 1}"


def build_url(sc):
    if sc.get("malformed") is not None:
        return sc["malformed"]
    u = f"{sc['scheme']}://{HOSTFORMS[sc['host']][0]}"
    if sc.get("port") is not None:
        u += f":{sc['port']}"
    u += sc.get("path", "")
    if sc.get("query") is not None:
        u += "?" + sc["query"]
    return u


def plan(tier, seed):
    items = [{"kind": "patterns", "n": n, "exhaustive": "all 340 address outcome patterns of length 1..4"} for n in (1, 2, 3, 4)]
    items.append({"kind": "urlgrid", "scheme": "ws", "exhaustive": "URL grid scheme x host form x port x path x query"})
    items.append({"kind": "urlgrid", "scheme": "wss", "exhaustive": "URL grid scheme x host form x port x path x query"})
    items.append({"kind": "malformed", "exhaustive": "all malformed URL variants"})
    items.append({"kind": "reused", "exhaustive": "object connected and closed before {cleanly, close frame's write fails, no reply} x timeout x address pattern x sockopt"})
    n = 6000 if tier == "quick" else 480000
    per = 250 if tier == "quick" else 2500
    for s in range(0, n, per):
        items.append({"kind": "rand", "start": s, "count": per})
    return items


def expand(item, seed):
    k = item["kind"]
    if k == "patterns":
        for pat in itertools.product(OUTCOMES, repeat=item["n"]):
            for fams in ((4,) * 4, (6, 4, 6, 4)):
                addrs = [{"fam": fams[i], "outcome": o if o != "other" else OTHER[i % 2]} for i, o in enumerate(pat)]
                yield {"scheme": "ws", "host": "name", "port": None, "path": "/", "query": None, "addrs": addrs,
                       "sockopt": [[1, 15, 1]] if len(pat) % 2 else [], "timeout": 3 * S if len(pat) != 2 else None, "seed": 1,
                       "stdlib_default_timeout": S // 4 if len(pat) == 2 else None}
            if 2 <= len(pat) <= 3 and "other" not in pat:
                # the same process connected to this target before, when the addresses answered differently (rotated pattern,
                # and "only the last one accepts")
                for earlier in (list(pat[1:] + pat[:1]), ["refused"] * (len(pat) - 1) + ["accept"]):
                    yield {"scheme": "ws", "host": "name", "port": None, "path": "/", "query": None,
                           "addrs": [{"fam": 4, "outcome": o} for o in pat], "sockopt": [], "timeout": 3 * S, "seed": 1,
                           "earlier_outcomes": earlier}
    elif k == "urlgrid":
        for host in HOSTFORMS:
            for port in PORTS:
                for path in PATHS:
                    for q in QUERIES:
                        yield {"scheme": item["scheme"], "host": host, "port": port, "path": path, "query": q,
                               "addrs": [{"fam": 6 if host == "ipv6" else 4, "outcome": "accept"}], "sockopt": [],
                               "timeout": 3 * S, "seed": 1}
    elif k == "reused":
        for pc in ("clean", "write_fails", "reply_missing"):
            for T in (None, 5 * S, S // 2):
                for pat in (("accept",), ("refused", "accept"), ("unreachable", "refused", "accept"), ("refused", "refused")):
                    for so in ([], [[1, 15, 1]]):
                        yield {"scheme": "ws", "host": "name", "port": None, "path": "/", "query": None,
                               "addrs": [{"fam": 4, "outcome": o} for o in pat], "sockopt": so, "timeout": T, "seed": 1, "prior_close": pc}
    elif k == "malformed":
        for m in MALFORMED:
            yield {"malformed": m, "addrs": [{"fam": 4, "outcome": "accept"}], "sockopt": [], "timeout": 3 * S, "seed": 1,
                   "on_connected_object": True}
        for m in MALFORMED:
            yield {"malformed": m, "addrs": [{"fam": 4, "outcome": "accept"}], "sockopt": [], "timeout": 3 * S, "seed": 1}
    else:
        for i in range(item["start"], item["start"] + item["count"]):
            yield gen(random.Random(derive_seed(seed, ID, i)))


def gen(rng):
    if rng.random() < 0.08:
        return {"malformed": rng.choice(MALFORMED), "addrs": [{"fam": 4, "outcome": "accept"}], "sockopt": [],
                "timeout": 3 * S, "seed": rng.randrange(1 << 30)}
    host = rng.choice(list(HOSTFORMS))
    sc = {"scheme": rng.choice(("ws", "ws", "wss")), "host": host, "port": rng.choice(PORTS), "path": rng.choice(PATHS),
          "query": rng.choice(QUERIES), "seed": rng.randrange(1 << 30)}
    if host in ("ipv4", "ipv6"):
        sc["addrs"] = [{"fam": 6 if host == "ipv6" else 4, "outcome": rng.choice(("accept", "accept", "refused", "unreachable", "timeout"))}]
    else:
        n = rng.randrange(1, 5)
        sc["addrs"] = [{"fam": rng.choice((4, 6)), "outcome": rng.choice(("accept", "refused", "unreachable", "refused", "timeout", "hostunreach", "perm"))}
                       for _ in range(n)]
    sc["sockopt"] = rng.choice(([], [], [[1, 15, 1]], [[6, 18, 4000], [1, 7, 65536]]))
    sc["timeout"] = rng.choice((None, 1 * S, 3 * S, S // 2))
    if rng.random() < 0.2:
        sc["stdlib_default_timeout"] = rng.choice((S // 4, 7 * S))  # the application called socket.setdefaulttimeout(x)
    if rng.random() < 0.12:
        sc["prior_close"] = rng.choice(("clean", "write_fails", "reply_missing"))
    elif len(sc["addrs"]) >= 2 and rng.random() < 0.25:
        sc["earlier_outcomes"] = [rng.choice(("accept", "refused", "unreachable", "hostunreach")) for _ in sc["addrs"]]
    return sc


def run(sc, choices=None):
    res = Result()
    try:
        malformed = sc.get("malformed")
        addrs = list(sc["addrs"])
        if not 1 <= len(addrs) <= 4:
            raise InvalidScenario("addrs")
        for a in addrs:
            if a["fam"] not in (4, 6) or a["outcome"] not in ("accept", "refused", "unreachable", "hostunreach") + OTHER:
                raise InvalidScenario("addr")
        sockopt = [tuple(int(x) for x in o) for o in sc.get("sockopt", ())]
        T = sc.get("timeout")
        if T is not None and int(T) < 1024:
            raise InvalidScenario("timeout")
        if malformed is None:
            scheme = sc["scheme"]
            if scheme not in ("ws", "wss") or sc["host"] not in HOSTFORMS:
                raise InvalidScenario("url parts")
            port = sc.get("port")
            if port is not None and not 1 <= int(port) <= 65535:
                raise InvalidScenario("port")
            path, query = sc.get("path", ""), sc.get("query")
            if (path and not path.startswith("/")) or any(c in path for c in " \r\n#?") or any(c in (query or "") for c in " \r\n#"):
                raise InvalidScenario("path/query")
            if sc["host"] in ("ipv4", "ipv6") and (len(addrs) != 1 or addrs[0]["fam"] != (6 if sc["host"] == "ipv6" else 4)):
                raise InvalidScenario("literal host has exactly its own address")
        elif malformed not in MALFORMED:
            raise InvalidScenario("malformed variant")
    except (KeyError, TypeError, ValueError) as e:
        raise InvalidScenario(str(e))
    url = build_url(sc)
    netcfg = {}
    if sc.get("stdlib_default_timeout") is not None:
        netcfg["default_socket_timeout"] = int(sc["stdlib_default_timeout"]) / S
    w = World(seed=int(sc.get("seed", 1)), step_cap=400_000, net_cfg=netcfg)
    peers = []
    tlspeers = []
    tls = malformed is None and sc["scheme"] == "wss"

    def fac(conn):
        p = WSPeer(w, {})
        peers.append(p)
        if tls:
            from ..tls import TLSPeer
            tp = TLSPeer(w, p, "good")
            tlspeers.append(tp)
            return tp
        return p

    if malformed is None:
        eff_port = int(sc["port"]) if sc.get("port") is not None else (443 if tls else 80)
        target_host = HOSTFORMS[sc["host"]][1]
    else:
        eff_port, target_host = 80, "multi.sim.test"
    table = []
    for i, a in enumerate(addrs):
        if malformed is None and sc["host"] in ("ipv4", "ipv6"):
            ad = target_host
        else:
            ad = addr_for(i, a["fam"])
        table.append((_rs.AF_INET if a["fam"] == 4 else _rs.AF_INET6, ad))
        w.net.listen(ad, eff_port, fac, outcome=a["outcome"])
    w.net.add_host(target_host, table)
    prior_close = sc.get("prior_close")
    if prior_close is not None:
        if prior_close not in ("clean", "write_fails", "reply_missing") or malformed is not None:
            raise InvalidScenario("prior_close")
        w.net.add_host("prior.sim.test", [(_rs.AF_INET, "10.2.9.9")])
        w.net.listen("10.2.9.9", 80, lambda conn: WSPeer(w, {"on_close": {"mode": "never"}} if prior_close == "reply_missing" else {}))
    outcome = None
    earlier = sc.get("earlier_outcomes")
    if earlier is not None:
        # the same process has connected to this URL before, when the addresses behaved differently (the first one was down,
        # say): the judged connection still tries the list in order
        if malformed is not None or prior_close or sc.get("on_connected_object") or len(earlier) != len(addrs) or len(addrs) < 2 \
                or any(o not in ("accept", "refused", "unreachable", "hostunreach") for o in earlier) or sc["host"] in ("ipv4", "ipv6"):
            raise InvalidScenario("earlier_outcomes")
    with w:
        ws = w.ws
        if tls:
            from .. import tls as simtls
            simtls.install()
        kw = {}
        if sockopt:
            kw["sockopt"] = sockopt
        if tls:
            import ssl
            kw["sslopt"] = {"cert_reqs": ssl.CERT_NONE, "check_hostname": False}
        first = None
        base = (0, 0)
        if earlier is not None:
            for (fam_, ad_), oc_ in zip(table, earlier):
                w.net.listen(ad_, eff_port, fac, outcome=oc_)
            for _rep in range(2):
                try:
                    c0 = ws.create_connection(url, timeout=None if T is None else int(T) / S, **kw)
                    c0.close(timeout=1)
                except SimAbort:
                    raise
                except BaseException:  # noqa - not judged
                    pass
            for (fam_, ad_), a_ in zip(table, addrs):
                w.net.listen(ad_, eff_port, fac, outcome=a_["outcome"])
            base = (len(w.net.resolver_calls), len(w.net.sockets))
            res.probes["same_target_connected_before_with_other_address_outcomes"] = 1
        try:
            if prior_close:
                # the object has been used before: connected with the same configuration, then closed - cleanly, with the close
                # frame's write failing, or without an answer from the server.  What close() did to the object must not
                # reach the sockets of the next connection
                c = ws.WebSocket(**kw)
                c.settimeout(None if T is None else int(T) / S)
                c.connect("ws://prior.sim.test/")
                if prior_close == "write_fails":
                    w.net.sockets[-1].send_fail = {"call": 0, "errno": "EPIPE"}
                c.close(timeout=1)
                base = (len(w.net.resolver_calls), len(w.net.sockets))
                c.connect(url)
                outcome = ("ok",)
                c.close(timeout=1)
            elif sc.get("on_connected_object"):
                # the call is made on an object that is connected: refusing the URL must leave that connection alone
                first = ws.create_connection("ws://multi.sim.test/", timeout=3)
                base = (len(w.net.resolver_calls), len(w.net.sockets))
                first.connect(url)
                outcome = ("ok",)
            else:
                c = ws.create_connection(url, timeout=None if T is None else int(T) / S, **kw)
                outcome = ("ok",)
                c.close(timeout=1)
        except SimAbort:
            outcome = ("abort", w.k.abort_reason)
        except BaseException as e:  # noqa
            outcome = ("exc", exc_name(e), isinstance(e, OSError), isinstance(e, ws.WebSocketException), isinstance(e, ValueError))
    res.absorb(w, exclude_kinds=("send", "recv", "deliver") if tls else ())
    socks = w.net.sockets
    if earlier is not None:
        socks = socks[base[1]:]
        del w.net.resolver_calls[:base[0]]
    if prior_close:
        if base == (0, 0):
            raise HarnessError(f"the earlier connection of the object was not established: {outcome}")
        socks = socks[base[1]:]
        del w.net.resolver_calls[:base[0]]
        res.probes["object_used_and_closed_before"] = 1
    ctx = "malformed" if malformed is not None else ("multi_address" if len(addrs) > 1 else "single_address")
    if outcome[0] == "abort":
        res.violate("connect_hangs", ctx, f"{url}: {outcome[1]}")
    elif malformed is not None and sc.get("on_connected_object"):
        ctx += "/on_connected_object"
        res.probes["malformed_url_on_connected_object"] = 1
        if outcome[0] != "exc" or not outcome[4]:
            res.violate("malformed_url_not_refused", ctx, f"{url!r}: outcome {outcome}")
        s0 = socks[0] if socks else None
        if first is None or s0 is None:
            raise HarnessError("first connection was not established")
        if (len(w.net.resolver_calls), len(socks)) != base or s0.closed or s0.shut_wr or s0.shut_rd or not first.connected:
            res.violate("network_activity_for_malformed_url", ctx,
                        f"{url!r} on a connected object: resolver calls/sockets {base} -> {(len(w.net.resolver_calls), len(socks))}, "
                        f"existing connection closed={s0.closed} shut_wr={s0.shut_wr} connected={first.connected}")
    elif malformed is not None:
        if outcome[0] != "exc" or not outcome[4]:
            res.violate("malformed_url_not_refused", ctx, f"{url!r}: outcome {outcome}")
        if w.net.resolver_calls or socks:
            res.violate("network_activity_for_malformed_url", ctx,
                        f"{url!r}: resolver calls {w.net.resolver_calls}, sockets {len(socks)}")
    else:
        # resolver
        rc = w.net.resolver_calls
        if not rc:
            res.violate("wrong_resolver_query", ctx, f"{url}: resolver never asked (outcome {outcome})")
        else:
            h, p = rc[0][0], rc[0][1]
            if str(h).lower() != target_host.lower() or int(p) != eff_port:
                res.violate("wrong_resolver_query", ctx, f"{url}: resolver asked for ({h!r}, {p!r}), expected ({target_host!r}, {eff_port})")
        # dial order
        expected_dials = []
        unspec = False
        success_expected = False
        for i, a in enumerate(addrs):
            expected_dials.append(table[i][1])
            if a["outcome"] == "accept":
                success_expected = True
                break
            if a["outcome"] in OTHER:
                unspec = True
                break
        dialled = [s.connect_attempts[0][0] for s in socks if s.connect_attempts]
        if not res.violations:
            if unspec:
                # must at least have dialled the prefix in order
                if dialled[:len(expected_dials)] != expected_dials:
                    res.violate("addresses_not_tried_in_order", ctx, f"dialled {dialled}, expected prefix {expected_dials}")
            else:
                if dialled != expected_dials:
                    res.violate("addresses_not_tried_in_order", ctx,
                                f"outcomes {[a['outcome'] for a in addrs]}: dialled {dialled}, expected {expected_dials}")
                if success_expected and outcome[0] != "ok":
                    res.violate("accepting_address_not_used", ctx, f"an address accepts but the call raised {outcome[1]}")
                if not success_expected and (outcome[0] != "exc" or not outcome[2]):
                    res.violate("all_failed_but_no_oserror", ctx, f"every address failed, outcome {outcome}")
        # per-socket settings
        want_t = None if T is None else int(T) / S
        first_opts = None
        for s in socks:
            if not s.connect_attempts:
                continue
            if s.timeout_at_connect != want_t:
                res.violate("timeout_not_applied_to_every_socket", ctx,
                            f"socket #{s.index} dialled {s.connect_attempts[0][0]} with timeout {s.timeout_at_connect}, configured {want_t}")
                break
            opts = [tuple(o[:3]) for o in s.opts_at_connect]
            if first_opts is None:
                first_opts = opts
                missing = [o for o in sockopt if o not in opts]
                if (_rs.IPPROTO_TCP, _rs.TCP_NODELAY, 1) not in opts:
                    missing.append("TCP_NODELAY")
                if missing:
                    res.violate("sockopt_not_applied_to_every_socket", ctx, f"first socket lacks {missing}: {opts}")
                    break
            elif opts != first_opts:
                res.violate("sockopt_not_applied_to_every_socket", ctx,
                            f"socket #{s.index} options {opts} differ from the first socket's {first_opts}")
                break
        # failed sockets closed (the successful one is closed by our own close())
        leaked = [s.index for s in socks if not s.closed]
        if leaked:
            res.violate("failed_socket_leaked", ctx, f"sockets left open: {leaked}, dialled {dialled}")
        # TLS iff wss, request target
        if outcome[0] == "ok":
            path, query = sc.get("path", ""), sc.get("query")
            want_target = (path or "/") + (("?" + query) if query else "")
            if tls:
                fb = tlspeers[-1].first_bytes if tlspeers else b""
                if not (len(fb) >= 3 and fb[0] == 0x16 and fb[1] == 3):
                    res.violate("wss_not_tls_from_first_byte", ctx, f"first bytes on the wire {fb!r}")
            else:
                raw = bytes(w.net.conns[-1].rx[:4]) if w.net.conns else b""
                if raw != b"GET ":
                    res.violate("ws_not_plain", ctx, f"first bytes on the wire {raw!r}")
            pr = peers[-1] if peers else None
            if pr is None or pr.request is None:
                res.violate("wrong_request_target", ctx, "no request seen")
            elif pr.request["target"] != want_target:
                pctx = "path_params" if ";" in path else ctx
                res.violate("wrong_request_target", pctx, f"{url}: target {pr.request['target']!r}, expected {want_target!r}")
    pat = tuple(a["outcome"] for a in addrs)
    if malformed is None:
        path = sc.get("path", "")
        pcl = "empty" if not path else ("params" if ";" in path else ("pct" if "%" in path else "plain"))
        res.sig = repr((sc["scheme"], sc["host"], sc.get("port"), pcl, sc.get("query") is not None, pat,
                        tuple(a["fam"] for a in addrs), bool(sockopt), T is None))
        res.nontrivial = len(addrs) > 1 or pat != ("accept",) or sc.get("port") is not None or pcl != "plain" or sc["host"] != "name"
    else:
        res.sig = repr(("malformed", malformed))
        res.nontrivial = True
    for o in pat:
        res.probes["addr_" + o] = res.probes.get("addr_" + o, 0) + 1
    return res


def sample_view(sc, r):
    return {"url": build_url(sc), "addresses": sc.get("addrs"), "sockopt": sc.get("sockopt"), "timeout_ticks": sc.get("timeout"), "stdlib_default_timeout_ticks": sc.get("stdlib_default_timeout")}


# round 7 summary for the evidence file
RULE = RULE + "  Round 7: RFC 3986 sub-delims, ':' and '@' in paths; '/', '?', ':', '@', ';', ',', '+' inside queries - the requested resource is the URL's path and query as written."
RULE = RULE + ("  'earlier_outcomes': the same process connected to the same target before (twice), when its addresses answered "
               "differently (every 2-3 address pattern against its rotation and against only-the-last-accepts; 25 % of the seeded "
               "multi-address scenarios): the judged connection still tries the list in order.")
