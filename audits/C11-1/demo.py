#!/venv/bin/python
"""C11 counterexample 1: the documented sslopt key "ciphers" silently switches off
ALL server authentication (chain and host name) although cert_reqs stays CERT_REQUIRED
and check_hostname stays True.

A loopback TLS server that owns NO certificate at all (anonymous (EC)DH key exchange)
is accepted by

    websocket.create_connection("wss://localhost:PORT/", sslopt={"ciphers": "ALL:@SECLEVEL=0"})

and the WebSocket handshake and messages are exchanged with it.

exit 1: violation demonstrated;  exit 0: the library rejected the unauthenticated server;
exit 2: inconclusive (this OpenSSL build has no anonymous cipher suites).
"""
import base64
import hashlib
import socket
import ssl
import sys
import threading
import time

sys.path.insert(0, "/tmp/wt/C11")
import websocket  # noqa: E402
from websocket import _http  # noqa: E402

print("websocket imported from", websocket.__file__)
print("ssl:", ssl.OPENSSL_VERSION)

GUID = b"258EAFA5-E914-47DA-95CA-C5AB0DC85B11"
CIPHERS = "ALL:@SECLEVEL=0"  # widespread "make my legacy server work again" recipe


class AnonServer:
    """TLS server WITHOUT any certificate: only anonymous key exchange (TLS <= 1.2)."""

    def __init__(self):
        self.ctx = ssl.SSLContext(ssl.PROTOCOL_TLS_SERVER)
        self.ctx.maximum_version = ssl.TLSVersion.TLSv1_2
        self.ctx.set_ciphers("aNULL:@SECLEVEL=0")  # no load_cert_chain(): it has no identity
        self.ls = socket.socket()
        self.ls.bind(("127.0.0.1", 0))
        self.ls.listen(10)
        self.port = self.ls.getsockname()[1]
        self.log = []
        threading.Thread(target=self.loop, daemon=True).start()

    def loop(self):
        while True:
            try:
                c, _ = self.ls.accept()
            except OSError:
                return
            threading.Thread(target=self.serve, args=(c,), daemon=True).start()

    def serve(self, c):
        c.settimeout(5)
        try:
            s = self.ctx.wrap_socket(c, server_side=True)
        except Exception as e:
            self.log.append(("tls-handshake-failed", repr(e)[:70]))
            c.close()
            return
        try:
            self.log.append(("tls-established", s.cipher()[0]))
            buf = b""
            while b"\r\n\r\n" not in buf:
                d = s.recv(4096)
                if not d:
                    return
                buf += d
            self.log.append(("http-upgrade-request-received", buf.split(b"\r\n")[0].decode()))
            key = [l.split(b":", 1)[1].strip() for l in buf.split(b"\r\n") if l.lower().startswith(b"sec-websocket-key:")][0]
            acc = base64.b64encode(hashlib.sha1(key + GUID).digest())
            s.sendall(
                b"HTTP/1.1 101 Switching Protocols\r\nUpgrade: websocket\r\nConnection: Upgrade\r\n"
                b"Sec-WebSocket-Accept: " + acc + b"\r\n\r\n"
            )
            s.sendall(b"\x81\x12hello from nobody!")
            hdr = s.recv(2)
            n = hdr[1] & 0x7F
            rest = b""
            while len(rest) < 4 + n:
                rest += s.recv(4 + n - len(rest))
            mask, body = rest[:4], rest[4:]
            self.log.append(("client-message-received", bytes(b ^ mask[i % 4] for i, b in enumerate(body)).decode()))
        except Exception as e:
            self.log.append(("server-error", repr(e)[:70]))
        finally:
            try:
                s.close()
            except Exception:
                pass


srv = AnonServer()
url = f"wss://localhost:{srv.port}/"

# --- sanity: the server really is anonymous-only, and the default configuration refuses it
raw = ssl.SSLContext(ssl.PROTOCOL_TLS_CLIENT)
raw.check_hostname = False
raw.verify_mode = ssl.CERT_NONE
try:
    raw.set_ciphers("aNULL:@SECLEVEL=0")
    with raw.wrap_socket(socket.create_connection(("127.0.0.1", srv.port), timeout=5)) as t:
        print("sanity: anonymous server reachable, suite", t.cipher()[0], "- peer certificate:", t.getpeercert(True))
except Exception as e:
    print("INCONCLUSIVE: no anonymous cipher suites in this OpenSSL build:", repr(e))
    sys.exit(2)

del srv.log[:]
try:
    websocket.create_connection(url, timeout=5).close()
    print("control: default sslopt ACCEPTED the certificate-less server ?!")
    sys.exit(1)
except Exception as e:
    print("control: default sslopt rejects the certificate-less server:", type(e).__name__)

# --- the counterexample: only the documented 'ciphers' key is given
captured = {}
orig_wrap = _http._wrap_sni_socket


def spy(sock, sslopt, hostname, check_hostname):
    s = orig_wrap(sock, sslopt, hostname, check_hostname)
    captured.update(verify_mode=s.context.verify_mode, check_hostname=s.context.check_hostname, server_hostname=s.server_hostname)
    return s


_http._wrap_sni_socket = spy
del srv.log[:]
sslopt = {"ciphers": CIPHERS}  # cert_reqs / check_hostname / CA options untouched -> defaults
print(f"\ncreate_connection({url!r}, sslopt={sslopt!r})")
violated = False
try:
    ws = websocket.create_connection(url, sslopt=sslopt, timeout=5)
    violated = True
    print("  -> CONNECTED. effective context settings:", captured)
    print("  -> peer certificate seen by the client:", ws.sock.getpeercert(True), " negotiated suite:", ws.sock.cipher()[0])
    print("  -> received from the unauthenticated server:", repr(ws.recv()))
    ws.send("my secret token")
    time.sleep(0.3)
    ws.close()
except Exception as e:
    print("  -> rejected:", type(e).__name__, e)
time.sleep(0.3)
print("  server log:", srv.log)
if any(k in ("http-upgrade-request-received", "client-message-received") for k, _ in srv.log):
    violated = True

if violated:
    print(
        "\nVIOLATION (C11): with cert_reqs=CERT_REQUIRED and check_hostname=True still in force, a server that\n"
        "presented no certificate at all was accepted and WebSocket data was exchanged with it. The documented\n"
        "sslopt key 'ciphers' (not one of the documented relaxations) disabled chain AND host name verification."
    )
    sys.exit(1)
print("\nOK: the unauthenticated server was rejected before any WebSocket data was exchanged.")
sys.exit(0)
