"""Stand-in for the external dispatcher `rel` (not installed here): a virtual-time event loop that
follows rel's documented contract for the calls websocket-client makes:
  read(sock, cb)                 cb() when sock is readable; registration persists while cb returns true
  timeout(sec, cb, *args)        cb(*args) after sec; re-armed while cb returns true
  buffwrite(sock, data, sender, onerror)   queue data; written with sender from the loop; onerror(exc) on failure, from the loop
  signal(signum, cb), abort(), dispatch()
It is a STUB and reported as such; exceptions escaping a callback end dispatch() (rel's own behaviour
in that case is not modelled, and no property check relies on it)."""
from .kernel import to_ticks, SimAbort


class SimRel:
    def __init__(self, world):
        self.w = world
        self.k = world.k
        self.reads = []  # [sock, cb]
        self.writes = []  # [sock, data, sender, onerror] queued by buffwrite
        self.timers = []  # [due, seq, cb, args, sec]
        self._seq = 0
        self.aborted = False
        self.signals = {}
        self.final = None
        self.escaped = None

    def read(self, sock, cb):
        self.reads = [r for r in self.reads if r[0] is not sock]
        self.reads.append([sock, cb])
        self.k.ev("rel_read", getattr(sock, "fileno", lambda: -1)())

    def timeout(self, sec, cb, *args):
        self._seq += 1
        self.timers.append([self.k.now + to_ticks(sec), self._seq, cb, args, sec])
        self.k.ev("rel_timeout", float(sec))

    def buffwrite(self, sock, data, sender, onerror):
        """rel queues the data and writes it from its own loop; a failing write reaches onerror from there - never from
        inside the caller (who may hold the connection's send lock)."""
        if isinstance(data, str):
            data = data.encode("utf-8")
        self.writes.append([sock, bytes(data), sender, onerror])
        self.k.ev("rel_buffwrite", len(data))

    def _flush_writes(self):
        while self.writes:
            sock, data, sender, onerror = self.writes.pop(0)
            try:
                while data:
                    n = sender(sock, data)
                    data = data[n:]
            except SimAbort:
                raise
            except Exception as e:  # noqa
                onerror(e)

    def signal(self, signum, cb):
        self.signals[signum] = cb

    def abort(self):
        self.aborted = True

    def _ready(self):
        out = []
        for r in self.reads:
            s = r[0]
            ss = s._sim_sock() if hasattr(s, "_sim_sock") else None
            if ss is None or ss.closed:
                continue
            # a descriptor-based loop sees the descriptor only: bytes already decrypted inside an SSL object do not make it
            # readable (the library has to ask pending() itself)
            if ss._sim_readable():
                out.append(r)
        return out

    def _any_closed(self):
        return any(hasattr(r[0], "_sim_sock") and r[0]._sim_sock().closed for r in self.reads)

    def dispatch(self):
        k = self.k
        k.ev("rel_dispatch")
        while not self.aborted:
            if self.writes:
                self._flush_writes()
                continue
            # forget closed sockets
            self.reads = [r for r in self.reads if not (hasattr(r[0], "_sim_sock") and r[0]._sim_sock().closed)]
            if not self.reads and not self.timers:
                break
            due = min((t[0] for t in self.timers), default=None)
            ticks = None if due is None else max(0, due - k.now)
            if not self.reads and due is None:
                break
            k.wait(lambda: bool(self._ready()) or self._any_closed() or bool(self.writes), ticks, "rel")
            if self.writes:
                continue
            fired = False
            for r in self._ready():
                fired = True
                keep = r[1]()
                if not keep and r in self.reads:
                    self.reads.remove(r)
                break  # one callback per iteration, then re-evaluate
            if fired:
                continue
            nowt = k.now
            for t in sorted(self.timers):
                if t[0] <= nowt:
                    self.timers.remove(t)
                    again = t[2](*t[3])
                    if again:
                        self._seq += 1
                        self.timers.append([k.now + to_ticks(t[4]), self._seq, t[2], t[3], t[4]])
                    break
        k.ev("rel_dispatch_end")
