"""
C14 counterexample 1: run_forever never returns after a ping timeout when an
application thread is blocked in send() towards the (stalled) server.

Server: completes the opening handshake, then neither reads nor writes
("silence").  Client: WebSocketApp.run_forever(ping_interval=1,
ping_timeout=0.5); on_open starts an application thread that sends one big
binary message (the usual "producer thread calls ws.send()" pattern).

Expected by the property: the silence is noticed through the ping timeout,
on_error / on_close fire, run_forever returns True, the ping thread is gone.
Observed: the ping timeout IS noticed (on_error fires), but teardown() then
calls WebSocket.close() -> send(close frame) -> `with self.lock`, and that lock
is held forever by the application thread that is blocked inside sock.send().
run_forever never returns, on_close never fires, the ping thread stays alive.
"""
import base64
import hashlib
import os
import socket
import sys
import threading
import time

sys.path.insert(0, "/tmp/wt/C14")
import websocket  # noqa: E402

print("websocket module:", websocket.__file__)

GUID = b"258EAFA5-E914-47DA-95CA-C5AB0DC85B11"
WAIT = 14.0  # seconds granted to run_forever (ping timeout is due after ~2.5 s)


def server(lsock, stop):
    conn, _ = lsock.accept()
    req = b""
    while b"\r\n\r\n" not in req:
        req += conn.recv(4096)
    key = [
        l.split(b":", 1)[1].strip()
        for l in req.split(b"\r\n")
        if l.lower().startswith(b"sec-websocket-key")
    ][0]
    accept = base64.b64encode(hashlib.sha1(key + GUID).digest())
    conn.sendall(
        b"HTTP/1.1 101 Switching Protocols\r\nUpgrade: websocket\r\n"
        b"Connection: Upgrade\r\nSec-WebSocket-Accept: " + accept + b"\r\n\r\n"
    )
    # from now on: total silence (no read, no write), connection kept open
    stop.wait()
    conn.close()


def main():
    lsock = socket.socket()
    lsock.setsockopt(socket.SOL_SOCKET, socket.SO_RCVBUF, 8192)
    lsock.bind(("127.0.0.1", 0))
    lsock.listen(1)
    port = lsock.getsockname()[1]
    stop = threading.Event()
    threading.Thread(target=server, args=(lsock, stop), daemon=True).start()

    events = []
    sender_state = {}

    def producer(ws):
        try:
            # far bigger than the loopback socket buffers: blocks in sock.send()
            ws.send(os.urandom(1) * (32 * 1024 * 1024), websocket.ABNF.OPCODE_BINARY)
            sender_state["result"] = "sent"
        except BaseException as e:  # noqa
            sender_state["result"] = f"raised {type(e).__name__}: {e}"

    def on_open(ws):
        events.append("open")
        threading.Thread(target=producer, args=(ws,), daemon=True).start()

    app = websocket.WebSocketApp(
        f"ws://127.0.0.1:{port}/",
        on_open=on_open,
        on_error=lambda ws, e: events.append(f"error:{type(e).__name__}:{e}"),
        on_close=lambda ws, c, r: events.append(f"close:{c}:{r}"),
    )
    result = {}

    def run():
        result["ret"] = app.run_forever(
            ping_interval=1,
            ping_timeout=0.5,
            sockopt=((socket.SOL_SOCKET, socket.SO_SNDBUF, 8192),),
        )

    t = threading.Thread(target=run, daemon=True)
    t0 = time.time()
    t.start()
    t.join(WAIT)
    elapsed = time.time() - t0
    print("events:", events)
    if app.ping_thread and not t.is_alive():
        app.ping_thread.join(1.0)  # small grace: the main point is the hang
    print("producer thread:", sender_state.get("result", "still blocked in send()"))
    ping_alive = bool(app.ping_thread and app.ping_thread.is_alive())
    problems = []
    if t.is_alive():
        problems.append(
            f"run_forever has NOT returned {elapsed:.1f} s after start "
            f"(ping timeout was due after ~2.5 s)"
        )
    else:
        print("run_forever returned", result.get("ret"), f"after {elapsed:.1f} s")
        if result.get("ret") is not True:
            problems.append(f"return value {result.get('ret')!r}, expected True")
    if not any(e.startswith("close:") for e in events):
        problems.append("on_close was never called")
    if ping_alive:
        problems.append("the ping thread is still alive")
    if app.sock is not None:
        problems.append("app.sock (the transport) is still set")
    stop.set()
    if problems:
        print("VIOLATION:")
        for p in problems:
            print("  -", p)
        return 1
    print("OK: the run ended cleanly after the ping timeout")
    return 0


if __name__ == "__main__":
    rc = main()
    sys.stdout.flush()
    os._exit(rc)
