"""One simulated run: kernel + network + deterministic randomness + probes + process-state reset."""
import logging
import os
import random

from . import seams
from .kernel import Kernel, SimAbort, HarnessError
from .net import Net

_PROXY_ENV = ("http_proxy", "HTTP_PROXY", "https_proxy", "HTTPS_PROXY", "no_proxy", "NO_PROXY",
              "all_proxy", "ALL_PROXY", "WEBSOCKET_CLIENT_CA_BUNDLE", "SSLKEYLOGFILE", "SSL_CERT_FILE", "SSL_CERT_DIR")


class SinkHandler(logging.Handler):
    def __init__(self):
        super().__init__()
        self.records = 0

    def createLock(self):
        self.lock = None

    def acquire(self):
        pass

    def release(self):
        pass

    def handle(self, record):
        self.records += 1
        try:
            record.getMessage()
        except Exception:  # a formatting bug in the library's log call is not our concern here
            pass
        return True

    def emit(self, record):
        pass


class World:
    def __init__(self, seed=0, policy=None, choices=None, net_cfg=None, step_cap=2_000_000,
                 time_cap_s=100_000, env=None, trace=False, default_timeout=None):
        self.ws = seams.install()
        self.k = Kernel(seed=seed, policy=policy, choices=choices, step_cap=step_cap,
                        time_cap_s=time_cap_s, trace_prefix=seams.trace_prefix())
        self.net = Net(self.k, net_cfg)
        self.probes = {}
        self.urandom_log = []
        self._drbg = random.Random((seed * 2654435761 + 12345) & 0xFFFFFFFFFFFF)
        self.lib_threads = []
        self.env = dict(env or {})
        self._saved_env = None
        self.trace = trace
        self.default_timeout = default_timeout
        self.sink = None
        self.leaked = 0

    def urandom(self, n):
        self.k._check_abort()
        b = self._drbg.randbytes(n)
        seq = self.k.ev("urandom", n, b)
        self.urandom_log.append((seq, n, b, self.k.cur.tid))
        return b

    def probe(self, name, n=1):
        self.probes[name] = self.probes.get(name, 0) + n

    def __enter__(self):
        if seams._Cur.world is not None:
            raise HarnessError("nested worlds")
        ws = self.ws
        self._saved_env = {k: os.environ.get(k) for k in _PROXY_ENV}
        for k in _PROXY_ENV:
            os.environ.pop(k, None)
        for k, v in self.env.items():
            if k not in _PROXY_ENV:
                raise HarnessError("scenario sets unexpected environment variable " + k)
            os.environ[k] = v
        # process-wide library state
        # (a new world is a new process: the module-level jar is a new object, whatever attributes it has grown)
        seams.restore_state()
        ws._handshake.CookieJar = type(ws._handshake.CookieJar)()
        ws.setReconnect(0)
        ws.setdefaulttimeout(self.default_timeout)
        lg = logging.getLogger("websocket")
        for h in list(lg.handlers):
            if not isinstance(h, logging.NullHandler):
                lg.removeHandler(h)
        lg.setLevel(logging.NOTSET)
        lg.propagate = False
        ws._logging._traceEnabled = False
        if self.trace:
            self.sink = SinkHandler()
            ws.enableTrace(True, handler=self.sink, level="DEBUG")
        seams.set_world(self)
        return self

    def __exit__(self, et, ev, tb):
        try:
            self.leaked = self.k.shutdown()
        finally:
            seams.set_world(None)
            for k in _PROXY_ENV:
                os.environ.pop(k, None)
            for k, v in (self._saved_env or {}).items():
                if v is not None:
                    os.environ[k] = v
            ws = self.ws
            if self.sink is not None:
                logging.getLogger("websocket").removeHandler(self.sink)
            ws._logging._traceEnabled = False
            logging.getLogger("websocket").setLevel(logging.NOTSET)
            ws.setdefaulttimeout(None)
            ws.setReconnect(0)
        return False
