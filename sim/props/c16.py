"""C16 - keepalive pings detect a silent peer in bounded time and never a responsive one."""
import random

from .. import rfc6455 as R
from ..appdrv import run_app
from ..harness import S, Result, InvalidScenario
from ..runner import derive_seed

ID = "C16"
LEVEL = "exploration"
RULE = ("scenario = run_forever(ping_interval=i, ping_timeout=t, ping_payload=p) on the grid i in {1,2,3,5,8,20} s x t in "
        "{None,1/2,1,2,4,7} s plus refused pairs (t<=0, i<0, i<=t); peer pong policy: latency pattern per ping (constant, "
        "jittered, bursty) strictly below 0.9 t (responsive stratum) or 'stops answering after the k-th ping' (silent "
        "stratum, optionally after the first bytes of a frame whose rest never arrives); concurrent server traffic (none / "
        "steady / bursts timed to collide with ping and timeout instants / pong frames nobody asked for at offsets around "
        "and after the timeout); optionally an application thread sitting in send() (server window closed for longer than "
        "the timeout) when a ping falls due; optionally a step of the wall clock (forwards / backwards by more than the "
        "timeout) around a ping; seeded schedules incl. line-level pre-emption between ping thread and loop.  Oracle from the peer's "
        "log and the callback trace: pings carry p, consecutive pings are i apart, the first no later than 2 i after the "
        "connection is up, none after the run has ended; silent: on_error(WebSocketTimeoutException 'ping/pong timed "
        "out') no later than P + 2 t (P = arrival of the first unanswered ping); responsive: no timeout ever reported; "
        "refused pairs raise WebSocketException with zero network activity.  Enumerated completely: the accepted grid x "
        "{responsive, silent after 0/1/3 pongs} x {no traffic, steady, unsolicited pongs, silent in the middle of a frame}; every refused pair.  non-trivial = a ping was "
        "sent; distinct = (i, t, stratum, latency pattern, traffic pattern, schedule digest)")
ASSUMPTIONS = ["a pre-empted thread may additionally be held up for <= 1/32 s of virtual time ('slow thread' fault); latencies stay below 0.9 t",
               "every timed wait overshoots by one tick (15 us); bounds carry a slack of 1/16 s for that",
               "the run of the responsive stratum is ended by a server close frame after several ping periods"]
I_GRID = (1, 2, 3, 5, 8, 20)
T_GRID = (None, 0.5, 1, 2, 4, 7)
SLACK = S // 16
WALL_CAP = {"quick": 600, "thorough": 3300}


def accepted(i, t):
    if t is not None and t <= 0:
        return False
    if i is not None and i < 0:
        return False
    if t and i and i <= t:
        return False
    return True


def plan(tier, seed):
    items = [{"kind": "grid", "exhaustive": "accepted (i, t) grid x {responsive, silent after 0/1/3 pongs} x {no traffic, steady}"},
             {"kind": "refused", "exhaustive": "every refused (i, t) pair of the grid plus negative / zero values"}]
    n = 3000 if tier == "quick" else 240000
    per = 100 if tier == "quick" else 1000
    for s in range(0, n, per):
        items.append({"kind": "rand", "start": s, "count": per})
    return items


def expand(item, seed):
    if item["kind"] == "grid":
        for i in I_GRID:
            for t in T_GRID:
                if not accepted(i, t):
                    continue
                for stratum in ("responsive", 0, 1, 3):
                    if t is None and stratum != "responsive":
                        continue
                    for traffic in ("none", "steady"):
                        sc = {"interval": int(i * S), "timeout": None if t is None else int(t * S), "payload": "ka",
                              "pong": {"mode": "const", "lat": 0 if t is None else int(t * S * 0.5)},
                              "traffic": {"mode": traffic, "period": int(0.7 * S)}, "pings": 5,
                              "policy": {"kind": "coop", "p_call": 0.0}, "seed": 1}
                        if stratum != "responsive":
                            sc["pong"]["stop_after"] = stratum
                        yield sc
                        if traffic == "none" and t is not None:
                            if stratum == "responsive":
                                # pong frames nobody asked for, more than t after each ping
                                offs = [o for o in (int(t * S) + S // 8, int(t * S * 1.5)) if o < int(i * S)]
                                if offs:
                                    yield dict(sc, traffic={"mode": "pongs", "offsets": offs})
                            else:
                                # the peer falls silent in the middle of a frame
                                yield dict(sc, pong=dict(sc["pong"], partial="8105"))
                        if traffic == "none" and t is not None and i in (1, 3, 8):
                            yield dict(sc, second_conn="reconnect_after_timeout")
                            yield dict(sc, second_conn="reconnect_after_timeout", dispatcher="rel")
                            yield dict(sc, dispatcher="rel")
                            if stratum == "responsive":
                                yield dict(sc, second_conn="second_run_timeout_only")
                                yield dict(sc, sender={"at": 2 * int(i * S) - S // 8, "block": int(t * S) + S // 2, "len": 100})
                            for sign in (1, -1):
                                yield dict(sc, clock_jump={"at": 2 * int(i * S) + (sc["pong"]["lat"] // 2 or 1), "delta": sign * (2.0 * t + 0.25)})
                        if traffic == "none" and i in (1, 3, 8):
                            yield dict(sc, second_conn="second_run")
                            if stratum == "responsive":
                                yield dict(sc, second_conn="reconnect")
    elif item["kind"] == "refused":
        vals_i = (-1, 0, 0.5, 1, 2, 5)
        vals_t = (-1, 0, 0.5, 1, 2, 5, None)
        for i in vals_i:
            for t in vals_t:
                if not accepted(i, t):
                    for disp in (None, "rel"):
                        # (the refusal must come before connecting whichever loop will drive the connection)
                        sc_ = {"interval": int(i * S), "timeout": None if t is None else int(t * S), "payload": "", "refused": True,
                               "pong": {"mode": "const", "lat": 0}, "traffic": {"mode": "none"}, "pings": 1,
                               "policy": {"kind": "coop", "p_call": 0.0}, "seed": 1}
                        if disp:
                            sc_["dispatcher"] = disp
                        yield sc_
    else:
        for k in range(item["start"], item["start"] + item["count"]):
            yield gen(random.Random(derive_seed(seed, ID, k)))


def gen(rng):
    while True:
        i = rng.choice(I_GRID)
        t = rng.choice(T_GRID)
        if accepted(i, t):
            break
    it, tt = int(i * S), (None if t is None else int(t * S))
    sc = {"interval": it, "timeout": tt, "payload": rng.choice(("", "ka", "héllo", "x" * 100)), "pings": rng.randrange(2, 7),
          "seed": rng.randrange(1 << 30)}
    pong = {"mode": rng.choice(("const", "jitter", "burst"))}
    lim = int((tt if tt else it) * 0.9) - 2
    pong["lat"] = 0 if rng.random() < 0.3 else rng.randrange(0, max(1, lim))
    if pong["mode"] != "const":
        pong["lats"] = [rng.randrange(0, max(1, lim)) for _ in range(rng.randrange(2, 6))]
    if tt is not None and rng.random() < 0.5:
        pong["stop_after"] = rng.choice((0, 1, 2, 3))
        if rng.random() < 0.2:
            pong["partial"] = rng.choice(("81", "8105", "810568", "0102aa", "8a", "8905", "827e"))
    sc["pong"] = pong
    mode = rng.choice(("none", "steady", "collide", "collide", "pongs") if tt is not None else ("none", "steady", "collide", "collide"))
    tr = {"mode": mode}
    if mode == "pongs":
        # unsolicited pong frames at offsets after each ping instant (before, around and well after the timeout)
        tr["offsets"] = sorted(set(rng.choice((S // 8, tt // 2, tt - 1, tt, tt + 1, tt + S // 8, tt + tt // 2, it - S // 8, it // 2))
                                   for _ in range(rng.randrange(1, 4))))
        tr["offsets"] = [o for o in tr["offsets"] if 0 < o < it] or [S // 8]
    if mode == "steady":
        tr["period"] = rng.choice((S // 4, S // 2 + 7, S, 3 * S + 1))
    elif mode == "collide":
        # data frames land on / right around ping instants (k*i) and timeout instants (k*i + t)
        offs = [0, 1, -1, 2, S // 1024]
        tr["instants"] = sorted(set(max(1, k * it + (tt or 0) * rng.randrange(0, 2) + rng.choice(offs)) for k in range(1, 8)))
    sc["traffic"] = tr
    if rng.random() < 0.12:
        sc["tls"] = True
    r2 = rng.random()
    if r2 < 0.15:
        sc["second_conn"] = "second_run"      # the judged connection belongs to a second run_forever of the same object
    elif r2 < 0.3 and pong.get("stop_after") is None:
        sc["second_conn"] = "reconnect"       # the judged connection is a re-established one
    elif r2 < 0.4 and tt is not None:
        # the judged connection follows one that was given up for a ping timeout (its last ping still unanswered)
        sc["second_conn"] = rng.choice(("reconnect_after_timeout", "reconnect_after_timeout", "second_run_timeout_only"))
        if sc["second_conn"] == "second_run_timeout_only":
            pong.pop("stop_after", None)
            pong.pop("partial", None)
    if rng.random() < 0.15 and sc.get("second_conn") not in ("second_run_timeout_only", "second_run") and not sc.get("tls"):
        sc["dispatcher"] = "rel"              # external dispatcher (stub): the ping/pong check runs as one of its timers
        if pong.get("partial"):
            pong.pop("partial")
    if tt is not None and pong.get("stop_after") is None and not sc.get("second_conn") and not sc.get("dispatcher") and rng.random() < 0.15:
        # an application thread is inside send() (the server's window closed for a while, the server itself answering every
        # ping at once) when a ping falls due: the ping has to wait for the send lock
        sc["sender"] = {"at": rng.choice((2, 3)) * it - rng.choice((S // 8, S // 2)), "block": tt + rng.choice((S // 4, tt, 2 * tt)), "len": 100}
    if tt is not None and not sc.get("sender") and rng.random() < 0.15:
        # the wall clock steps (forwards or backwards, by more than the timeout) somewhere around a ping
        k_ = rng.choice((2, 3, 4))
        sc["clock_jump"] = {"at": min(k_ * it + rng.choice((-S // 8, 1, (pong.get("lat") or 0) // 2, S // 8, it // 2)),
                                      it * (sc["pings"] + 2) + tt * 3 - 1),
                            "delta": rng.choice((-1, 1)) * (tt + rng.choice((S // 4, tt, 10 * tt))) / S}
    sc["policy"] = rng.choice(({"kind": "coop", "p_call": 0.0}, {"kind": "coop", "p_call": 0.3},
                               {"kind": "prob", "p_line": 1 / 64, "p_call": 0.3}, {"kind": "prob", "p_line": 1 / 8, "p_call": 0.3},
                               {"kind": "pct", "d": 2, "len": 4000},
                               {"kind": "prob", "p_line": 1 / 8, "p_call": 0.3, "stall": 199, "stall_max": S // 256, "stall_seed": rng.randrange(1 << 20)},
                               {"kind": "prob", "p_line": 1 / 64, "p_call": 0.3, "stall": 97, "stall_max": S // 512, "stall_seed": rng.randrange(1 << 20)},
                               {"kind": "prob", "p_line": 0.0, "p_call": 0.0, "stall": 131, "stall_max": S // 256, "stall_seed": rng.randrange(1 << 20)}))
    return sc


def run(sc, choices=None):
    res = Result()
    try:
        it = int(sc["interval"])
        tt = sc.get("timeout")
        tt = None if tt is None else int(tt)
        payload = sc.get("payload", "")
        pong = dict(sc.get("pong") or {})
        traffic = dict(sc.get("traffic") or {"mode": "none"})
        npings = int(sc.get("pings", 4))
        if not 1 <= npings <= 12:
            raise InvalidScenario("pings")
        refused = not accepted(it / S, None if tt is None else tt / S)
        if bool(sc.get("refused")) != refused and sc.get("refused") is not None:
            raise InvalidScenario("refused flag")
        if not refused:
            if it < S // 4 or (tt is not None and tt < S // 4):
                raise InvalidScenario("too small")
            lim = int((tt if tt else it) * 0.9)
            lats = [int(x) for x in (pong.get("lats") or [pong.get("lat", 0)])]
            if any(x < 0 or x >= lim for x in lats):
                raise InvalidScenario("latency not strictly below 0.9 t")
            if traffic.get("mode") not in ("none", "steady", "collide", "pongs"):
                raise InvalidScenario("traffic")
            if traffic.get("mode") == "pongs" and (tt is None or not traffic.get("offsets") or any(not 0 < int(o) < it for o in traffic["offsets"])):
                raise InvalidScenario("pong offsets")
            if pong.get("partial") is not None:
                part = bytes.fromhex(pong["partial"])
                if pong.get("stop_after") is None or tt is None or not part or R.decode_one(part, 0) is not None or (part[0] & 0x70) \
                        or (len(part) > 1 and part[1] & 0x80) or traffic.get("mode") != "none" and False:
                    raise InvalidScenario("partial")
    except (KeyError, TypeError, ValueError) as e:
        raise InvalidScenario(str(e))
    silent = pong.get("stop_after") is not None and tt is not None
    script = []
    horizon = it * (npings + 2) + (tt or 0) * 3
    if not refused:
        if traffic.get("mode") == "steady":
            per = max(S // 8, int(traffic.get("period", S)))
            k = 1
            while k * per < horizon and k < 400:
                script.append({"t": k * per, "hex": R.encode_frame(1, 2, b"d").hex(), "unless_closed": True})
                k += 1
        elif traffic.get("mode") == "collide":
            for x in traffic.get("instants", ()):
                if 0 < int(x) < horizon:
                    script.append({"t": int(x), "hex": R.encode_frame(1, 1, b"c").hex(), "unless_closed": True})
        elif traffic.get("mode") == "pongs":
            # (a peer that has fallen silent sends no pongs at all any more, asked for or not)
            stop = (int(pong["stop_after"]) + 2) * it - 1 if silent else horizon
            for k in range(2, npings + 3):
                for o in traffic["offsets"]:
                    if k * it + int(o) < min(horizon, stop):
                        script.append({"t": k * it + int(o), "hex": R.encode_frame(1, 10, b"unasked").hex(), "unless_closed": True})
        if silent and pong.get("partial"):
            # shortly before the first ping that stays unanswered the first bytes of a frame arrive; the rest never does
            tp = (int(pong["stop_after"]) + 2) * it - S // 4
            script = [x for x in script if x["t"] < tp]
            script.append({"t": tp, "hex": pong["partial"]})
        if not silent:
            script.append({"t": horizon, "hex": R.encode_frame(1, 8, b"\x03\xe8").hex()})
        cj = sc.get("clock_jump")
        if cj is not None:
            if tt is None or not 0 < int(cj["at"]) < horizon or not 0 < abs(float(cj["delta"])) <= 1000:
                raise InvalidScenario("clock_jump")
            script.append({"t": int(cj["at"]), "clock_jump": float(cj["delta"])})
        script.sort(key=lambda d: d["t"])
    on_ping = {"mode": "pong", "delay": int(pong.get("lat", 0))}
    if pong.get("lats"):
        on_ping["delays"] = [int(x) for x in pong["lats"]]
    if pong.get("stop_after") is not None:
        on_ping["stop_after"] = int(pong["stop_after"])
    cbs = {n: {"do": "ok"} for n in ("on_open", "on_error", "on_close", "on_pong")}
    judged = {"script": script, "on_ping": on_ping, "on_close": {"mode": "reply"}}
    second_conn = sc.get("second_conn") if not refused else None
    if second_conn not in (None, "reconnect", "second_run", "reconnect_after_timeout", "second_run_timeout_only"):
        raise InvalidScenario("second_conn")
    if second_conn == "reconnect" and silent:
        raise InvalidScenario("a silent peer behind a reconnect interval never ends the run")
    if second_conn in ("reconnect_after_timeout", "second_run_timeout_only") and (tt is None or refused):
        raise InvalidScenario("needs a ping timeout")
    if second_conn == "second_run_timeout_only" and silent:
        raise InvalidScenario("no pings are sent in that run: nobody can fall silent")
    disp = sc.get("dispatcher", "builtin")
    if refused and disp == "rel":
        pass  # only the refusal itself is judged
    if disp not in ("builtin", "rel") or (disp == "rel" and (sc.get("tls") or pong.get("partial") or second_conn in ("second_run", "second_run_timeout_only"))):
        raise InvalidScenario("dispatcher")
    conns = [judged]
    extra_run = {}
    extra = {}
    judged_idx = 0
    never = {"script": [], "on_ping": {"mode": "never"}, "on_close": {"mode": "reply"}}
    if second_conn == "reconnect":
        conns = [{"script": [{"t": it // 3, "end": "eof"}], "on_ping": {"mode": "pong"}}, judged]
        extra_run["reconnect"] = S // 2
        judged_idx = 1
    elif second_conn == "second_run":
        conns = [{"script": [{"t": it // 3, "hex": R.encode_frame(1, 8, b"\x03\xe8").hex()}], "on_ping": {"mode": "pong"}}]
        extra = {"runs": 2, "second": {"conns": [judged]}}
    elif second_conn == "reconnect_after_timeout":
        # connection 0 never answers a ping and is given up; the judged one is its replacement; when that one is given up
        # too, a third connection ends the run with a close frame
        conns = [never, judged, {"script": [{"t": it // 3, "hex": R.encode_frame(1, 8, b"\x03\xe8").hex()}], "on_ping": {"mode": "pong"}}]
        extra_run["reconnect"] = S // 2
        judged_idx = 1
    elif second_conn == "second_run_timeout_only":
        # run 1 ends on a ping timeout, its last ping unanswered; run 2 is started with a ping timeout but no interval
        conns = [never]
        extra = {"runs": 2, "second": {"conns": [judged], "run": {"ping_timeout": tt}}}
    if disp == "rel":
        extra_run["dispatcher"] = "rel"
    asc = {"conns": conns, "callbacks": cbs,
           "run": {"ping_interval": it, "ping_timeout": tt, "ping_payload": payload, "tls": bool(sc.get("tls")), **extra_run}, "policy": sc.get("policy"),
           "seed": sc.get("seed", 1), "time_cap_s": int(horizon / S) + 200, "linger": 3 * it + S if not refused else 0,
           "step_cap": 1_500_000}
    asc.update(extra)
    sender = sc.get("sender") if not refused else None
    if sender is not None:
        if silent or second_conn or disp != "builtin" or tt is None:
            raise InvalidScenario("the blocked application thread is judged on a first, responsive connection under the built-in loop")
        asc["sender"] = dict(sender)
    out = run_app(asc, choices)
    w = out["world"]
    res.absorb(w, exclude_kinds=("send", "recv", "deliver", "recv_call") if sc.get("tls") else ())
    run_ = out["runs"][-1]
    if second_conn == "second_run" and len(out["runs"]) < 2:
        res.violate("run_does_not_end", "first_run", f"first run did not finish: {out['runs'][0].aborted}")
        return _fin(res, sc, "first_run", 0)
    SLACK = S // 16 + w.k.stall_ticks + w.k.stalls  # injected 'slow thread' time is not the library's doing
    i_s, t_s = it / S, (None if tt is None else tt / S)
    ratio = "no_timeout" if tt is None else ("interval<=2*timeout" if it <= 2 * tt else "interval>2*timeout")
    stratum = "refused" if refused else ("silent" if silent else "responsive")
    ctx = f"{stratum}/{ratio}"
    if silent and pong.get("partial"):
        ctx = "silent_midframe"
    if sender is not None:
        ctx = "responsive/application_thread_in_send"
    if sc.get("clock_jump") and not refused:
        res.probes["wall_clock_step"] = 1  # (the context stays the base one: a step must not change any verdict)
    if refused:
        ok = run_.exc is not None and isinstance(run_.exc, w.ws.WebSocketException)
        if not ok:
            res.violate("inconsistent_settings_accepted", "refused", f"interval={i_s} timeout={t_s}: outcome ret={run_.ret!r} exc={run_.exc!r}")
        elif w.net.resolver_calls or w.net.sockets:
            res.violate("network_activity_before_refusal", "refused", f"interval={i_s} timeout={t_s}: resolver {len(w.net.resolver_calls)} sockets {len(w.net.sockets)}")
        res.sig = repr(("refused", it, tt))
        res.nontrivial = True
        return res
    if run_.aborted:
        res.violate("run_does_not_end", ctx, f"aborted ({run_.aborted}) at t={w.k.now / S}; interval={i_s} timeout={t_s}")
        return _fin(res, sc, ctx, 0)
    if run_.exc is not None:
        res.violate("run_forever_raised", ctx, f"{type(run_.exc).__name__}: {run_.exc}")
        return _fin(res, sc, ctx, 0)
    peer = out["peers"][-1] if out["peers"] else None
    if second_conn and len(out["peers"]) < 2:
        peer = None
    elif second_conn == "reconnect_after_timeout":
        peer = out["peers"][1]
    if disp == "rel":
        res.probes["external_dispatcher"] = 1
    if peer is None or peer.open_time is None:
        res.violate("no_connection", ctx, "peer never saw the handshake")
        return _fin(res, sc, ctx, 0)
    pings = [(f, seq, tm) for f, seq, tm in peer.frames if f.opcode == 9]
    t0 = peer.open_time
    if second_conn == "second_run_timeout_only":
        ctx = "responsive/no_interval_after_timeout"
        touts = [t for t in run_.trace if t[2] == "on_error" and t[3] and t[3][0][0] == "exc" and t[3][0][1] == "WebSocketTimeoutException"]
        if pings:
            res.violate("pings_without_interval", ctx, f"{len(pings)} pings in a run started without ping_interval")
        elif touts:
            res.violate("responsive_peer_reported", ctx, f"a run that sends no pings reported {touts[0][3][0][2]!r} at {(touts[0][1] - t0) / S}s "
                        f"(the previous run of the object had ended on a ping timeout)")
        return _fin(res, sc, ctx, 1)
    # ---- ping payload and cadence
    for f, _, tm in pings:
        if f.payload != payload.encode("utf-8"):
            res.violate("wrong_ping_payload", ctx, f"ping payload {f.payload[:20]!r}, configured {payload[:20]!r}")
            return _fin(res, sc, ctx, len(pings))
    end = run_.t_end
    oc = [t for t in run_.trace if t[2] == "on_close"]
    if oc:
        end = min(end, oc[-1][1])  # (an external dispatcher may linger over an idle timer after the connection has gone)
    if second_conn == "reconnect_after_timeout" and len(out["peers"]) > 2 and out["peers"][2].open_time is not None:
        end = min(end, out["peers"][2].open_time)  # the judged connection had been replaced by then
        sp_ = [e for e in w.k.log if e[3] == "spawn" and e[5] == "SimThread"]
        ex_ = [e for e in w.k.log if e[3] == "exit" and len(sp_) > 1 and e[4] == sp_[1][4]]
        if ex_:
            end = min(end, ex_[0][1])  # ... and given up (its ping thread stopped) when the timeout was noticed
    early = [t for t in run_.trace if t[2] == "on_error" and t[3] and t[3][0][0] == "exc" and t[3][0][1] == "WebSocketTimeoutException" and t[1] >= t0]
    if silent and early:
        end = min(end, early[0][1])  # from the report on the connection is being given up: no further ping is owed
    if sender is not None:
        pass  # while the application's own write holds the send lock no ping can go out: cadence is not judged, detection is
    elif pings:
        if pings[0][2] - t0 > 2 * it + SLACK:
            res.violate("first_ping_late", ctx, f"first ping {(pings[0][2] - t0) / S}s after the connection came up, interval {i_s}")
            return _fin(res, sc, ctx, len(pings))
        for (a, b) in zip(pings, pings[1:]):
            d = b[2] - a[2]
            if abs(d - it) > SLACK:
                res.violate("pings_not_periodic", ctx, f"consecutive pings {d / S}s apart, interval {i_s}")
                return _fin(res, sc, ctx, len(pings))
        if end - pings[-1][2] > it + SLACK and end - t0 > 2 * it + SLACK:
            res.violate("pings_stopped_early", ctx, f"last ping at {(pings[-1][2] - t0) / S}s, run ended at {(end - t0) / S}s, interval {i_s}")
            return _fin(res, sc, ctx, len(pings))
    elif end - t0 > 2 * it + SLACK:
        res.violate("pings_stopped_early", ctx, f"no ping although the connection was up for {(end - t0) / S}s, interval {i_s}")
        return _fin(res, sc, ctx, 0)
    late = [tm for _, _, tm in pings if tm > end]
    if late or run_.live_threads_at_return:
        res.violate("pings_after_run_ended", ctx, f"pings after the end of the run: {len(late)}; threads alive at return {run_.live_threads_at_return}")
        return _fin(res, sc, ctx, len(pings))
    # ---- detection
    touts = [t for t in run_.trace if t[2] == "on_error" and t[3] and t[3][0][0] == "exc" and t[3][0][1] == "WebSocketTimeoutException"
             and t[1] >= t0]
    if silent and second_conn == "reconnect_after_timeout" and not touts and len(w.net.sockets) > 1:
        # while a reconnect interval is configured the library does not call on_error for a re-established connection
        # that is lost again: there the report is the act itself - the connection is given up (its socket closed) and
        # replaced
        # (the instant it is given up = the instant its ping thread is stopped; the socket itself is closed only when the
        # reconnect interval has passed)
        spawns = [e for e in w.k.log if e[3] == "spawn" and e[5] == "SimThread"]
        gave_up = [e for e in w.k.log if e[3] == "exit" and len(spawns) > 1 and e[4] == spawns[1][4]]
        if gave_up and len(w.net.sockets) > 2:
            touts = [(gave_up[0][0], gave_up[0][1], "on_error", (("exc", "WebSocketTimeoutException", "ping/pong timed out (connection replaced)"),))]
    if silent:
        k = int(pong["stop_after"])
        if len(pings) > k:
            P = pings[k][2]
            if not touts:
                res.violate("silent_peer_not_detected", ctx, f"peer stopped answering at ping #{k + 1} (t={(P - t0) / S}s); no ping/pong timeout reported; run ended at {(end - t0) / S}s")
            else:
                det = touts[0][1]
                if det > P + 2 * tt + SLACK:
                    res.violate("silent_peer_detected_late", ctx,
                                f"interval={i_s} timeout={t_s}: first unanswered ping at {(P - t0) / S}s, reported at {(det - t0) / S}s, bound {(P + 2 * tt - t0) / S}s")
                elif "ping/pong timed out" not in touts[0][3][0][2]:
                    res.violate("silent_peer_not_detected", ctx, f"timeout reported with message {touts[0][3][0][2]!r}")
        else:
            res.violate("run_does_not_end", ctx, f"only {len(pings)} pings seen, peer was to fall silent after {k}")
    else:
        if touts:
            res.violate("responsive_peer_reported", ctx,
                        f"interval={i_s} timeout={t_s} latencies {pong.get('lats') or pong.get('lat')}: timeout reported at {(touts[0][1] - t0) / S}s")
    return _fin(res, sc, ctx, len(pings))


def _fin(res, sc, ctx, npings):
    if sc.get("second_conn"):
        for v in res.violations:
            if "[judged connection:" not in v["detail"]:
                v["detail"] = f"[judged connection: {sc['second_conn']}] " + v["detail"]
    res.sig = repr((sc["interval"], sc.get("timeout"), ctx, (sc.get("pong") or {}).get("mode"), (sc.get("traffic") or {}).get("mode"),
                    sc.get("second_conn"), sc.get("dispatcher"), res.sched if res.switches else ""))
    res.nontrivial = npings > 0
    res.probes["stratum_" + ctx.split("/")[0]] = 1
    res.probes["pings_seen"] = npings
    return res


def sample_view(sc, r):
    return {k: sc.get(k) for k in ("interval", "timeout", "payload", "pong", "traffic", "pings", "policy", "tls", "second_conn", "dispatcher", "sender", "clock_jump")}
